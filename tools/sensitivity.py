#!/usr/bin/env python3
"""Sensitivity and no-false-alarm self-tests (DESIGN §2.8, §6).

Every entry of MUTANTS is a small textual change of pydsol-core that breaks
one of the properties; it is applied to a scratch copy of /repo/src (under
/tmp, removed afterwards; selected through VERIF_REPO_SRC) and the owning
check must report a VIOLATION within a modest run budget.  Every entry of
EQUIVALENT is a behaviour-preserving rewrite that must keep the check green.

usage: sensitivity.py [--only ID[,ID]] [--with-tests] [--kind mutants|equivalent|all]
"""
import argparse
import json
import os
import shutil
import subprocess
import sys
import tempfile
import time

VERIF = os.path.dirname(os.path.dirname(os.path.abspath(__file__)))
CORE = "pydsol/core/"

# (id, property, file, old, new, runs)
MUTANTS = [
    # ---- C01
    ("c01-no-reheapify", "C01", "eventlist.py",
     "            heapq.heapify(self._event_list)\n", "", 20000),
    ("c01-priority-sign", "C01", "eventlist.py",
     "heapq.heappush(self._event_list, (event.time, -event.priority,",
     "heapq.heappush(self._event_list, (event.time, event.priority,", 20000),
    ("c01-contains-always-true", "C01", "eventlist.py",
     "        return self._event_list.count((event.time, -event.priority,\n                                       event._id, event)) > 0",
     "        return True", 20000),
    ("c01-cmp-id-descending", "C01", "simevent.py",
     "        if (self._id < other._id):\n            return -1\n        if (self._id > other._id):\n            return 1",
     "        if (self._id < other._id):\n            return 1\n        if (self._id > other._id):\n            return -1", 20000),
    ("c01-peek-pops", "C01", "eventlist.py",
     "        return self._event_list[0][3]", "        return heapq.heappop(self._event_list)[3]", 20000),
    # ---- C02
    ("c02-clock-after-execute", "C02", "simulator.py",
     "            self._simulator_time = event.time\n            try:\n                event.execute()",
     "            try:\n                event.execute()", 6000),
    ("c02-past-test-le", "C02", "simulator.py",
     "        if not time >= self._simulator_time:\n            raise DSOLError(\"cannot schedule event in the past\")",
     "        if not time > self._simulator_time:\n            raise DSOLError(\"cannot schedule event in the past\")", 6000),
    ("c02-rel-ignores-now", "C02", "simulator.py",
     "        return self.schedule_event(SimEvent(self._simulator_time + delay,",
     "        return self.schedule_event(SimEvent(delay,", 6000),
    ("c02-cancel-noop", "C02", "simulator.py",
     "        self._eventlist.remove(event)", "        pass", 6000),
    ("c02-nan-accepted", "C02", "simulator.py",
     "        if not time >= self._simulator_time:", "        if time < self._simulator_time:", 6000),
    # ---- C03
    ("c03-bound-ge", "C03", "simulator.py",
     "            if (t > self._run_until_time or (t == self._run_until_time \\\n                    and not self._run_until_including) ",
     "            if (t >= self._run_until_time or (t == self._run_until_time \\\n                    and not self._run_until_including) ", 6000),
    ("c03-ignore-inclusive-flag", "C03", "simulator.py",
     "and not self._run_until_including) ", "and False) ", 6000),
    ("c03-clock-stays-at-last-event", "C03", "simulator.py",
     "                self._simulator_time = self._run_until_time\n", "", 6000),
    ("c03-always-ending", "C03", "simulator.py",
     "                if self._run_until_time >= self._replication.end_sim_time:\n                    self._replication_state = ReplicationState.ENDING",
     "                self._replication_state = ReplicationState.ENDING", 6000),
    ("c03-step-beyond-end", "C03", "simulator.py",
     "        if not self._eventlist.is_empty() and \\\n                self._eventlist.peek_first().time <= \\\n                self._replication.end_sim_time:",
     "        if not self._eventlist.is_empty():", 8000),
    ("c03-no-clamp", "C03", "simulator.py",
     "            run_until_time = self._replication.end_sim_time\n            run_until_including = True", "            pass", 12000),
    # ---- C04
    ("c04-refused-overwrites-bound", "C04", "simulator.py",
     "        self._start_impl(stop_time, False)", "        self._run_until_time = stop_time\n        self._start_impl(stop_time, False)", 8000),
    ("c04-stop-before-run-ends", "C04", "simulator.py",
     "                        self._job._run()\n                        self._job.fire_timed(self._job.simulator_time,\n                            Simulator.STOP_EVENT, None)",
     "                        self._job.fire_timed(self._job.simulator_time,\n                            Simulator.STOP_EVENT, None)\n                        self._job._run()", 8000),
    ("c04-never-finalize", "C04", "simulator.py",
     "                        ReplicationInterface.END_REPLICATION_EVENT, None)\n                    self._finalized = True",
     "                        ReplicationInterface.END_REPLICATION_EVENT, None)", 8000),
    ("c04-warmup-normal-priority", "C04", "simulator.py",
     "            self, \"warmup\", priority=SimEventInterface.MAX_PRIORITY)",
     "            self, \"warmup\", priority=SimEventInterface.NORMAL_PRIORITY)", 12000),
    ("c04-end-twice", "C04", "simulator.py",
     "                    self._finalized = True\n            self._running = False",
     "                    self._job.fire_timed(self._job.simulator_time,\n                        ReplicationInterface.END_REPLICATION_EVENT, None)\n                    self._finalized = True\n            self._running = False", 8000),
    ("c04-clear-wakeup-late", "C04", "simulator.py",
     "            self.__wakeup_flag.clear()\n            self._running = True",
     "            self._running = True", 8000),
    ("c04-start-while-stopping", "C04", "simulator.py",
     "        if self._run_state == RunState.STOPPING:\n            raise DSOLError(\"cannot start a simulator that is still stopping\")\n", "", 36000),
    ("c04-stop-unconditional", "C04", "simulator.py",
     "            if self.is_starting_or_running():\n                self._run_state = RunState.STOPPING",
     "            self._run_state = RunState.STOPPING", 36000),
    ("c04-started-unconditional", "C04", "simulator.py",
     "                            if self._job._run_state == RunState.STARTING:\n                                self._job._run_state = RunState.STARTED",
     "                            self._job._run_state = RunState.STARTED", 36000),
    ("c04-no-time-changed", "C04", "simulator.py",
     "            if (event.time != self.simulator_time):\n                self.fire_timed(event.time, Simulator.TIME_CHANGED_EVENT,\n                                event.time)\n", "", 8000),
    ("c04-start-after-end-allowed", "C04", "simulator.py",
     "        if not (self._replication_state == ReplicationState.INITIALIZED \\\n                or self.replication_state == ReplicationState.STARTED):\n            raise DSOLError(\"replication state not INITIALIZED or STARTED\")\n", "", 8000),
    ("c04-step-epilogue-unconditional", "C04", "simulator.py",
     "            if (self.is_starting_or_running()\n                    or self._run_state == RunState.STOPPING):\n                self._run_state = RunState.STOPPED\n",
     "            self._run_state = RunState.STOPPED\n", 14000),
    ("c04-step-notify-before-state", "C04", "simulator.py",
     "            self._run_state = RunState.STARTED\n            if self._replication_state == ReplicationState.INITIALIZED:\n                self._replication_state = ReplicationState.STARTED\n                self.fire_timed(self._simulator_time,\n                    ReplicationInterface.START_REPLICATION_EVENT, None)",
     "            if self._replication_state == ReplicationState.INITIALIZED:\n                self.fire_timed(self._simulator_time,\n                    ReplicationInterface.START_REPLICATION_EVENT, None)\n                self._replication_state = ReplicationState.STARTED\n            self._run_state = RunState.STARTED", 36000),
    # ---- C05
    ("c05-continue-as-pause", "C05", "simulator.py",
     "                if self._error_strategy == ErrorStrategy.WARN_AND_PAUSE:",
     "                if self._error_strategy >= ErrorStrategy.WARN_AND_CONTINUE:", 300),
    ("c05-return-instead-of-continue", "C05", "simulator.py",
     "                logger.log(self._error_log_level, s + str(e))",
     "                logger.log(self._error_log_level, s + str(e))\n                return", 300),
    ("c05-step-swallows-stop", "C05", "simulator.py",
     "        finally:\n            self.fire_timed(self._simulator_time,\n                            Simulator.STOP_EVENT, None)\n            # cleanup() or initialize() called",
     "        else:\n            self.fire_timed(self._simulator_time,\n                            Simulator.STOP_EVENT, None)\n            # cleanup() or initialize() called", 300),
    ("c05-step-typeerror", "C05", "simulator.py",
     "print(\"Simulator step got exception: \" + str(e))", "print(\"Simulator step got exception: \" + e)", 300),
    ("c05-pause-not-honoured", "C05", "simulator.py",
     "                if self._error_strategy == ErrorStrategy.WARN_AND_PAUSE:\n                    self._run_state = RunState.STOPPING",
     "                if self._error_strategy == ErrorStrategy.WARN_AND_PAUSE:\n                    pass", 300),
    # ---- C06
    ("c06-no-eventlist-clear", "C06", "simulator.py",
     "        self._eventlist.clear()\n        super().initialize(model, replication)",
     "        super().initialize(model, replication)", 3000),
    ("c06-no-clock-reset", "C06", "simulator.py",
     "        self._simulator_time = replication.start_sim_time\n", "", 3000),
    ("c06-warmup-twice", "C06", "simulator.py",
     "        self.schedule_event_abs(self.replication.warmup_sim_time,\n            self, \"warmup\", priority=SimEventInterface.MAX_PRIORITY)",
     "        self.schedule_event_abs(self.replication.warmup_sim_time,\n            self, \"warmup\", priority=SimEventInterface.MAX_PRIORITY)\n        if self._replication_state == ReplicationState.INITIALIZED and self._simulator_time < 0:\n            pass\n        self._warm2 = getattr(self, '_warm2', 0) + 1\n        if self._warm2 > 1:\n            self.schedule_event_abs(self.replication.warmup_sim_time,\n                self, \"warmup\", priority=SimEventInterface.MAX_PRIORITY)", 3000),
    ("c06-stats-not-cleared", "C06", "simulator.py",
     "        model.output_statistics().clear()\n", "", 3000),
    ("c06-initialize-while-running", "C06", "simulator.py",
     "        # this check HAS to be done before clearing the eventlist\n        if (self.is_starting_or_running() \n                or self._run_state == RunState.STOPPING):\n            raise DSOLError(\"cannot initialize a running simulation\")\n", "", 3000),
    # ---- C07
    ("c07-listeners-in-set", "C07", "pubsub.py",
     "        for listener in self._listeners.get(event.event_type).copy():",
     "        for listener in set(self._listeners.get(event.event_type)):", 8),
    ("c07-order-by-object-id", "C07", "eventlist.py",
     "                                          event._id, event))\n    \n    def peek_first",
     "                                          id(event), event))\n    \n    def peek_first", 8),
    ("c07-updater-builtin-hash", "C13", "streams.py",
     "                        (1_000_037 + id_hash))", "                        (1_000_037 + hash(stream_id)))", 8),
    # ---- C08
    ("c08-iterate-live-list", "C08", "pubsub.py",
     "        for listener in self._listeners.get(event.event_type).copy():",
     "        for listener in self._listeners.get(event.event_type):", 30000),
    ("c08-allow-duplicates", "C08", "pubsub.py",
     "        if listener not in self._listeners[event_type]:\n            self._listeners[event_type].append(listener)",
     "        self._listeners[event_type].append(listener)", 30000),
    ("c08-remove-all-wrong-case", "C08", "pubsub.py",
     "            if listener == None:\n                if event_type in self._listeners:\n                    del self._listeners[event_type]",
     "            if listener == None:\n                self._listeners.clear()", 30000),
    ("c08-skip-metadata-length", "C08", "pubsub.py",
     "                if len(event_type.metadata) != len(content):", "                if False:", 30000),
    ("c08-timed-listeners-reversed", "C08", "pubsub.py",
     "        for listener in self._listeners.get(timed_event.event_type).copy():",
     "        for listener in reversed(self._listeners.get(timed_event.event_type).copy()):", 30000),
    # ---- C09 / C10 / C11
    ("c09-welford-perturbed", "C09", "statistics.py",
     "        self._m2 += delta * (value - self._m1)", "        self._m2 += delta * delta", 10000),
    ("c09-wrong-n-minus-1", "C09", "statistics.py",
     "            return self._m2 / (self._n - 1)", "            return self._m2 / (self._n)", 10000),
    ("c09-skew-zero-variance-raises", "C09", "statistics.py",
     "        if n > 1 and self._m2 > 0:  # undefined (NaN) when the variance is 0", "        if n > 1:", 10000),
    ("c09-min-not-reset", "C09", "statistics.py",
     "        if self._n == 0:\n            self._min = +math.inf\n            self._max = -math.inf\n        self._n += 1\n        delta",
     "        if self._n == 0 and not hasattr(self, '_seen'):\n            self._seen = 1\n            self._min = +math.inf\n            self._max = -math.inf\n        self._n += 1\n        delta", 10000),
    ("c10-zero-weight-raises", "C10", "statistics.py",
     "        if self._n > 0 and self._sum_of_weights > 0:", "        if self._n > 0:", 10000),
    ("c10-delta-from-start", "C10", "statistics.py",
     "                deltatime = max(0.0, timestamp - self._last_timestamp)",
     "                deltatime = max(0.0, timestamp - self._start_time)", 10000),
    ("c10-no-close", "C10", "statistics.py",
     "        self.register(timestamp, self._last_value)\n        self._active = False",
     "        self.register(timestamp, self._last_value)", 10000),
    ("c10-regress-accepted", "C10", "statistics.py",
     "        if timestamp < self._last_timestamp:\n            raise ValueError(\"tally timestamp before last timestamp\")\n", "", 10000),
    ("c11-no-reset-at-warmup", "C11", "statistics.py",
     "        elif event.event_type == ReplicationInterface.WARMUP_EVENT:\n            self.initialize()\n        elif event.event_type == ReplicationInterface.END_REPLICATION_EVENT:",
     "        elif event.event_type == ReplicationInterface.WARMUP_EVENT:\n            pass\n        elif event.event_type == ReplicationInterface.END_REPLICATION_EVENT:", 6000),
    ("c11-no-close-at-end", "C11", "statistics.py",
     "            self.end_observations(self.simulator.simulator_time)", "            pass", 6000),
    ("c11-publish-before-update", "C11", "statistics.py",
     "        super().register(weight, value)\n        if self.has_listeners():\n            self._fire_events(value)  ",
     "        if self.has_listeners():\n            self._fire_events(value)  \n        super().register(weight, value)", 6000),
    ("c11-warmup-low-priority", "C11", "simulator.py",
     "            self, \"warmup\", priority=SimEventInterface.MAX_PRIORITY)",
     "            self, \"warmup\", priority=SimEventInterface.MIN_PRIORITY)", 6000),
    # ---- C12 / C13 / C14
    ("c12-reset-to-original-seed", "C12", "streams.py",
     "        self.set_seed(self._seed)", "        self.set_seed(self._original_seed)", 20000),
    ("c12-restore-noop", "C12", "streams.py",
     "        self._random.setstate(state)", "        pass", 20000),
    ("c12-shared-generator", "C12", "streams.py",
     "        self._random: Random = Random()", "        self._random: Random = _SHARED", 20000),
    ("c13-index-before-none-test", "C13", "streams.py",
     "        if self._stream_seeds.get(stream_id) is None:", "        if self._stream_seeds[stream_id] is None:", 8),
    ("c13-negative-replication-accepted", "C13", "streams.py",
     "        if replication_nr < 0:\n            raise ValueError(\"replication_nr < 0\")\n        if self._stream_seeds",
     "        if self._stream_seeds", 8),
    ("c14-log-of-zero", "C14", "distributions.py",
     "        return -self._mean * math.log(self._next_positive_float())",
     "        return -self._mean * math.log(self._stream.next_float())", 3000),
    ("c14-cached-gaussian-kept", "C14", "distributions.py",
     "        super()._set_stream(stream)\n        self._have_saved_gaussian = False  # helper variable",
     "        super()._set_stream(stream)", 3000),
    ("c14-old-stream-kept", "C14", "distributions.py",
     "        super()._set_stream(stream)\n        self._dist = DistGamma(stream, self._alpha, 1.0 / self._beta)",
     "        super()._set_stream(stream)\n        if getattr(self, '_dist', None) is None:\n            self._dist = DistGamma(stream, self._alpha, 1.0 / self._beta)", 3000),
    ("c14-uniform-outside", "C14", "distributions.py",
     "        return self._lo + (self._hi - self._lo) * self._stream.next_float()",
     "        return self._lo + (self._hi - self._lo) * 1.0000001 * self._stream.next_float()", 3000),
    ("c14-sigma-zero-accepted", "C14", "distributions.py",
     "        if sigma <= 0:\n            raise ValueError(f\"parameter sigma {sigma} should be > 0\")\n",
     "", 3000),
    # ---- C18
    ("c18-no-bounds-test", "C18", "parameters.py",
     "        if not self._min <= value <= self._max:\n            raise ValueError(f\"parameter value {value} not between \" + \\\n                             f\"{self._min} and {self._max}\")\n        self._value = value",
     "        self._value = value", 20000),
    ("c18-str-readonly-skipped", "C18", "parameters.py",
     "        if self.read_only:\n            raise ValueError(f\"parameter {self.key} is read only\")\n        if not isinstance(value, str):",
     "        if not isinstance(value, str):", 20000),
    ("c18-sort-by-key", "C18", "parameters.py",
     "                       key=lambda item: item[1])}", "                       key=lambda item: item[0])}", 20000),
    ("c18-duplicate-overwrites", "C18", "parameters.py",
     "        if input_parameter.key in self._value.keys():\n            raise ValueError(f\"duplicate key {input_parameter.key} in map {self}\")\n", "", 20000),
]

# behaviour-preserving rewrites: the owning checks must stay green
EQUIVALENT = [
    ("eq-eventlist-sorted-list", ["C01", "C02"], "eventlist.py",
     "        heapq.heappush(self._event_list, (event.time, -event.priority,\n                                          event._id, event))",
     "        self._event_list.append((event.time, -event.priority,\n                                          event._id, event))\n        self._event_list.sort(key=lambda e: e[:3])", 12000),
    # (12000 runs: a full sort per add makes the rare giant histories, the first of which has
    # index 12000+ under VERIF_SEED=0, take hours)
    ("eq-variance-two-step", ["C09", "C11"], "statistics.py",
     "            if self._n > 0:\n                return self._m2 / (self._n)",
     "            if self._n > 0:\n                n = self._n\n                return self._m2 / n", None),
    ("eq-lifecycle-rlock", ["C04", "C03"], "simulator.py",
     "        self._state_lock = threading.Lock()", "        self._state_lock = threading.RLock()", None),
    ("eq-pubsub-list-copy", ["C08", "C07"], "pubsub.py",
     "        for listener in self._listeners.get(event.event_type).copy():",
     "        for listener in list(self._listeners.get(event.event_type)):", None),
    ("eq-next-int-randrange-free", ["C12"], "streams.py",
     "        return lo + math.floor((hi - lo + 1) * self._random.random())",
     "        r = self._random.random()\n        return lo + int(math.floor((hi - lo + 1) * r))", None),
    ("eq-time-changed-always", ["C04", "C02", "C05"], "simulator.py",
     "            if (event.time != self.simulator_time):\n                self.fire_timed(event.time, Simulator.TIME_CHANGED_EVENT,\n                                event.time)",
     "            self.fire_timed(event.time, Simulator.TIME_CHANGED_EVENT,\n                            event.time)", None),
    ("eq-sleep-2ms", ["C04", "C06"], "simulator.py",
     "        while not self._runflag and int(time.time() * 1000) - msec < 1000:\n            sleep(0.001)",
     "        while not self._runflag and int(time.time() * 1000) - msec < 1000:\n            sleep(0.002)", None),
    ("eq-from-threading-import-event", ["C04"], "simulator.py",
     "        self.__wakeup_flag = threading.Event()", "        self.__wakeup_flag = _Event()", None),
    ("eq-params-ordereddict", ["C18"], "parameters.py",
     "        self._value = {k: v for k, v in sorted(self._value.items(),\n                       key=lambda item: item[1])}",
     "        import collections\n        self._value = collections.OrderedDict(sorted(self._value.items(),\n                       key=lambda item: item[1]))", None),
    ("eq-weighted-mean-recomputed", ["C10"], "statistics.py",
     "        if self._n > 0:\n            return self._weighted_mean\n        return math.nan",
     "        if self._n > 0:\n            m = self._weighted_mean\n            return m\n        return math.nan", None),
]
EXTRA_HEAD = {
    "c02-nan-accepted": ("simulator.py", "        if not event.time >= self._simulator_time:",
                         "        if event.time < self._simulator_time:"),
    "c12-shared-generator": ("streams.py", "logger = get_module_logger('streams')",
                             "logger = get_module_logger('streams')\n_SHARED = Random()"),
    "eq-from-threading-import-event": ("simulator.py", "import threading\n",
                                       "import threading\nfrom threading import Event as _Event\n"),
}
QUICK_RUNS = {"C01": 20000, "C02": 6000, "C03": 6000, "C04": 12000, "C05": 150, "C06": 2000,
              "C07": 4, "C08": 30000, "C09": 10000, "C10": 10000, "C11": 5000, "C12": 20000,
              "C13": 8, "C14": 3000, "C18": 20000}


def patch(path, old, new):
    b = open(path, "rb").read()
    o = old.encode().replace(b"\r\n", b"\n").replace(b"\n", b"\r\n")
    n = new.encode().replace(b"\r\n", b"\n").replace(b"\n", b"\r\n")
    if b.count(o) < 1:
        raise KeyError("pattern not found in %s: %r" % (path, old[:70]))
    open(path, "wb").write(b.replace(o, n, 1))


def run_check(src, prop, runs):
    env = dict(os.environ)
    env["VERIF_REPO_SRC"] = src
    p = subprocess.run([os.path.join(VERIF, "check"), "run", prop, "--runs", str(runs),
                        "--no-evidence", "--no-optimized-pass"], cwd=VERIF, env=env, capture_output=True, text=True,
                       timeout=1800)
    lines = [l for l in p.stdout.splitlines() if l.startswith("VIOLATION")
             or l.strip().startswith("check=")]
    return p.returncode, lines[:2], p.stdout[-300:] + p.stderr[-300:]


def run_tests(src):
    env = dict(os.environ)
    env["PYTHONPATH"] = src
    try:
        p = subprocess.run(["timeout", "-k", "5", "150", "/venv/bin/python", "-m", "pytest", "-q",
                            "-x", "-p", "no:cacheprovider", "--timeout=60", "/repo/tests"],
                           cwd="/tmp", env=env, capture_output=True, text=True, timeout=200)
    except subprocess.TimeoutExpired:
        return False
    return p.returncode == 0


def main():
    ap = argparse.ArgumentParser()
    ap.add_argument("--only", default="")
    ap.add_argument("--kind", default="all")
    ap.add_argument("--with-tests", action="store_true")
    ap.add_argument("--out", default=os.path.join(VERIF, "selftest_sensitivity.json"))
    args = ap.parse_args()
    only = set(x for x in args.only.split(",") if x)
    results = {"mutants": [], "equivalent": [], "started": time.strftime("%F %T")}
    if args.kind in ("all", "mutants"):
        for mid, prop, fn, old, new, runs in MUTANTS:
            if only and mid not in only:
                continue
            d = tempfile.mkdtemp(prefix="vfmut.")
            try:
                shutil.copytree("/repo/src", d + "/src")
                try:
                    patch(d + "/src/" + CORE + fn, old, new)
                    if mid in EXTRA_HEAD:
                        f2, o2, n2 = EXTRA_HEAD[mid]
                        patch(d + "/src/" + CORE + f2, o2, n2)
                except KeyError as e:
                    results["mutants"].append({"id": mid, "property": prop, "caught": False,
                                               "error": str(e)})
                    print("%-36s %s PATTERN-MISSING %s" % (mid, prop, e), flush=True)
                    continue
                tests_ok = run_tests(d + "/src") if args.with_tests else None
                t0 = time.time()
                rc, lines, tail = run_check(d + "/src", prop, runs)
                caught = rc == 1 and any(l.startswith("VIOLATION") for l in lines)
                results["mutants"].append({
                    "id": mid, "property": prop, "file": fn, "runs": runs, "caught": caught,
                    "exit": rc, "first": lines[1][:300] if len(lines) > 1 else tail[-200:],
                    "passes_repo_tests": tests_ok, "wall_s": round(time.time() - t0, 1)})
                print("%-36s %s %s exit=%d tests=%s  %s" % (
                    mid, prop, "CAUGHT" if caught else "MISSED", rc, tests_ok,
                    (lines[1][:110] if len(lines) > 1 else "")), flush=True)
            finally:
                shutil.rmtree(d, ignore_errors=True)
    if args.kind in ("all", "equivalent"):
        for mid, props, fn, old, new, eq_runs in EQUIVALENT:
            if only and mid not in only:
                continue
            d = tempfile.mkdtemp(prefix="vfmut.")
            try:
                shutil.copytree("/repo/src", d + "/src")
                patch(d + "/src/" + CORE + fn, old, new)
                if mid in EXTRA_HEAD:
                    f2, o2, n2 = EXTRA_HEAD[mid]
                    patch(d + "/src/" + CORE + f2, o2, n2)
                for prop in props:
                    rc, lines, tail = run_check(d + "/src", prop,
                                                min(eq_runs or QUICK_RUNS[prop], QUICK_RUNS[prop]))
                    results["equivalent"].append({"id": mid, "property": prop, "green": rc == 0,
                                                  "exit": rc, "first": lines[:2] or tail[-200:]})
                    print("%-36s %s %s exit=%d %s" % (mid, prop, "GREEN" if rc == 0 else "ALARM",
                                                      rc, lines[:2] if rc else ""), flush=True)
            finally:
                shutil.rmtree(d, ignore_errors=True)
    m = results["mutants"]
    results["summary"] = {
        "mutants": len(m), "caught": sum(1 for x in m if x["caught"]),
        "missed": [x["id"] for x in m if not x["caught"]],
        "equivalent_runs": len(results["equivalent"]),
        "false_alarms": [x["id"] + "/" + x["property"] for x in results["equivalent"]
                         if not x["green"]]}
    if not only:
        with open(args.out, "w") as f:
            json.dump(results, f, indent=1)
    print(json.dumps(results["summary"], indent=1))
    return 0


if __name__ == "__main__":
    sys.exit(main())
