#!/bin/bash
# usage: seeded_check.sh ID PROP [PROP...]  -- apply /verif/seeded/ID/patch.diff to a scratch copy of /repo and run checks
ID=$1; shift
D=$(mktemp -d /tmp/vfseed.XXXXXX)
git -C /repo archive HEAD src | tar -x -C $D
(cd $D && git init -q . && git apply --whitespace=nowarn /verif/seeded/$ID/patch.diff 2>/dev/null) || { echo "$ID: patch does not apply to HEAD"; rm -rf $D; exit 2; }
for P in "$@"; do
  OUT=$(cd /verif && VERIF_REPO_SRC=$D/src ./check run $P --tier quick --no-evidence 2>&1); RC=$?
  echo "$ID $P exit=$RC $(echo "$OUT" | grep 'check=' | head -1 | cut -c1-160)"
done
rm -rf $D
