#!/bin/bash
# usage: seeded_some.sh ID...  -- re-validate the given seeded changes and merge the lines into seeded/RESULTS.txt
cd /verif
OUT=/verif/seeded/RESULTS.txt
for ID in "$@"; do
  d=seeded/$ID; [ -f $d/meta.json ] || continue
  P=$(python3 -c "import json;print(json.load(open('$d/meta.json'))['property'])")
  EXTRA=""
  case $ID in C03d) EXTRA="C06";; C07a) EXTRA="C04";; C04c) EXTRA="C06";; C06h) EXTRA="C04";; C07e) EXTRA="C13";; C07g) EXTRA="C12";; C11i) EXTRA="C06";; C07j) EXTRA="C14";; C11k) EXTRA="C10";; esac
  NEW=$(tools/seeded_check.sh $ID $P $EXTRA 2>&1 | grep -E "^$ID[ :]")
  grep -v -E "^$ID[ :]" $OUT | grep -v "^done$" > $OUT.tmp
  echo "$NEW" >> $OUT.tmp
  sort -s -k1,1 $OUT.tmp | grep -v "^$" > $OUT
  echo "done" >> $OUT
done
