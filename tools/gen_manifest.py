#!/usr/bin/env python3
"""Write /verif/MANIFEST.json from the table below (kept in one place so the
file is always valid and consistent with the check modules)."""
import json, os, sys
HERE = os.path.dirname(os.path.dirname(os.path.abspath(__file__)))
sys.path.insert(0, HERE)
from vf.manifest_data import CHECKS, NOT_APPLICABLE, NOTES, PENDING_REASON

BASELINE = ("cd /repo && /venv/bin/python -m pytest -ra -q -p no:cacheprovider "
            "--timeout=900 --continue-on-collection-errors")
man = {
    "version": 1,
    "setup_cmd": "cd /verif && ./check setup",
    "hooks": {
        "guard": "PYDSOL_CORE_VERIF",
        "enable": "none needed: every seam (threading, time, sleep, StreamInterface, user callbacks) is patched from outside by identity at run time; no source hook exists in /repo",
        "baseline_off_cmd": BASELINE,
        "source_commits": [],
        "add_only": True,
    },
    "engines": [{
        "name": "detsim",
        "path": "/verif/vf",
        "serves_properties": [c["property_id"] for c in CHECKS],
        "kind_free_text": "deterministic simulation with fault injection: baton scheduler over the real run thread (sys.settrace line events as pre-emption points), cooperative threading primitives, virtual wall clock, seeded generators of model programs / command scripts / operation-and-fault histories, executable reference models as oracles, ddmin shrinker, replay files",
    }],
    "checks": [],
    "not_applicable": NOT_APPLICABLE,
    "notes": NOTES,
}
claimed = {c["property_id"] for c in CHECKS} | {n["property_id"] for n in NOT_APPLICABLE}
for line in open(os.path.join(HERE, "properties.jsonl")):
    pid = json.loads(line)["id"]
    if pid not in claimed:
        man["not_applicable"].append({"property_id": pid, "reason": PENDING_REASON})
for c in CHECKS:
    pid = c["property_id"]
    man["checks"].append({
        "property_id": pid,
        "quick_cmd": "./check run %s --tier quick" % pid,
        "thorough_cmd": "./check run %s --tier thorough" % pid,
        "evidence_file": "/verif/evidence/%s.json" % pid,
        "replay_cmd_template": "./check replay {path}",
        "engine": "detsim",
        "level_claimed": {"category": c["level"], "text": c["text"], "design_ref": c["design_ref"]},
        "level_note": c["note"],
        "technique": c["technique"],
    })
with open(os.path.join(HERE, "MANIFEST.json"), "w") as f:
    json.dump(man, f, indent=1)
print("wrote MANIFEST.json with", len(man["checks"]), "checks")
