#!/bin/sh
# usage: mut1.sh PROP RUNS FILE 'old' 'new'   -- apply one textual mutation to a scratch copy and run the check
set -e
D=$(mktemp -d /tmp/vfmut.XXXXXX)
cp -r /repo/src "$D/src"
python3 - "$D/src/pydsol/core/$3" "$4" "$5" <<'PY'
import sys
p, old, new = sys.argv[1:4]
b = open(p, 'rb').read()
o = old.encode().replace(b'\n', b'\r\n'); n = new.encode().replace(b'\n', b'\r\n')
if b.count(o) < 1: sys.exit("pattern not found: %r" % old)
open(p, 'wb').write(b.replace(o, n, 1))
PY
cd /verif
VERIF_REPO_SRC="$D/src" ./check run "$1" --runs "$2" --no-evidence 2>&1 | grep -v KNOWN | cut -c1-420 | head -${6:-4}
rm -rf "$D"
