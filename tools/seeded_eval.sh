#!/bin/bash
# usage: seeded_eval.sh WORKTREE ID PROP [PROP2 ...]
# Confirms a sub-agent's change (tests pass, demo fails with / passes without the change),
# stores it under /verif/seeded/ID and runs the owning checks against it.
WT=$1; ID=$2; shift 2
cd "$WT" || exit 2
S=$WT/_seeded
[ -f $S/patch.diff ] || { echo "no patch"; exit 2; }
run_demo() { if grep -q "def test_" $S/demo_test.py 2>/dev/null; then PYTHONPATH=$WT/src timeout 600 /venv/bin/python -m pytest -q -p no:cacheprovider --timeout=300 $S/demo_test.py >/tmp/demo_out.txt 2>&1; else PYTHONPATH=$WT/src timeout 600 /venv/bin/python $S/demo_test.py >/tmp/demo_out.txt 2>&1; fi; echo $?; }
# state with change applied?
if git -C $WT diff --quiet -- src; then git -C $WT apply $S/patch.diff || exit 2; fi
echo "diffstat: $(git -C $WT diff --stat -- src | tail -1)"
TESTS=$(cd $WT && PYTHONPATH=$WT/src timeout 900 /venv/bin/python -m pytest -q -p no:cacheprovider --timeout=600 tests 2>&1 | tail -1)
echo "tests with change: $TESTS"
DW=$(run_demo); echo "demo with change: exit $DW ($(tail -1 /tmp/demo_out.txt | cut -c1-100))"
git -C $WT apply -R $S/patch.diff 2>/dev/null
git -C $WT diff --quiet -- src && git -C $WT apply --check $S/patch.diff 2>/dev/null && echo "patch applies to clean checkout"
DO=$(run_demo); echo "demo without change: exit $DO ($(tail -1 /tmp/demo_out.txt | cut -c1-100))"
git -C $WT apply $S/patch.diff 2>/dev/null
mkdir -p /verif/seeded/$ID
cp $S/patch.diff /verif/seeded/$ID/patch.diff
cp $S/demo_test.py /verif/seeded/$ID/ 2>/dev/null
cp $S/notes.md /verif/seeded/$ID/ 2>/dev/null
RES=""
for P in "$@"; do
  OUT=$(cd /verif && VERIF_REPO_SRC=$WT/src ./check run $P --tier quick --no-evidence 2>&1)
  RC=$?
  echo "check $P: exit $RC"; echo "$OUT" | grep -A1 "^VIOLATION" | head -4 | cut -c1-330
  RES="$RES $P:$RC"
done
echo "SUMMARY $ID tests=[$TESTS] demo_with=$DW demo_without=$DO checks=$RES"
