#!/bin/bash
# Replays the schedules that once made a check raise a false alarm (DESIGN §10.5):
# every one must now be judged "ok" on the unchanged tree.
cd /verif; rc=0
for f in regress/false_alarms/*.json; do
  out=$(./check replay $f 2>&1 | grep "^REPLAY")
  case "$out" in *"status=ok"*) echo "ok   $f";; *) echo "FAIL $f: $out"; rc=1;; esac
done
exit $rc
