#!/usr/bin/env python3
"""Byte-exact search/replace in a CRLF source file of /repo.
usage: crlf_patch.py FILE  (reads a python literal list of (old, new) pairs from stdin)"""
import ast, sys
path = sys.argv[1]
pairs = ast.literal_eval(sys.stdin.read())
data = open(path, 'rb').read()
crlf = b'\r\n' in data
for old, new in pairs:
    o = old.encode(); n = new.encode()
    if crlf:
        o = o.replace(b'\r\n', b'\n').replace(b'\n', b'\r\n')
        n = n.replace(b'\r\n', b'\n').replace(b'\n', b'\r\n')
    if data.count(o) != 1:
        sys.exit("pattern occurs %d times: %r" % (data.count(o), old[:60]))
    data = data.replace(o, n)
open(path, 'wb').write(data)
