#!/bin/bash
# Re-validate every stored seeded change against the current /repo HEAD and the current checks.
cd /verif
OUT=/verif/seeded/RESULTS.txt; : > $OUT
for d in seeded/*/; do
  ID=$(basename $d); [ -f $d/meta.json ] || continue
  P=$(python3 -c "import json;print(json.load(open('$d/meta.json'))['property'])")
  EXTRA=""
  case $ID in C03d) EXTRA="C06";; C07a) EXTRA="C04";; C04c) EXTRA="C06";; C06h) EXTRA="C04";; C07e) EXTRA="C13";; C07g) EXTRA="C12";; C11i) EXTRA="C06";; C07j) EXTRA="C14";; C11k) EXTRA="C10";; esac
  tools/seeded_check.sh $ID $P $EXTRA >> $OUT 2>&1
done
echo "done" >> $OUT
