#!/usr/bin/env python3
"""Fill DESIGN.md §10.7 (between the BEGIN/END markers) from
selftest_sensitivity.json and seeded/*/meta.json."""
import glob, json, os
HERE = os.path.dirname(os.path.dirname(os.path.abspath(__file__)))
out = []
out.append("**Independent seeded changes** (`/verif/seeded/<id>/`: patch.diff, demo_test.py, notes.md, meta.json). "
           "Each was produced by a fresh sub-agent that saw only the property text and its own worktree; I confirmed "
           "for each one that the repository test suite still passes (111), that its demonstration fails with and "
           "passes without the change, then ran the owning check against the changed tree.\n")
out.append("| id | property | what it breaks | needs | caught by | check strengthened because of it |")
out.append("|---|---|---|---|---|---|")
n = miss = 0
uncaught = []
for f in sorted(glob.glob(os.path.join(HERE, "seeded", "*", "meta.json"))):
    m = json.load(open(f)); i = os.path.basename(os.path.dirname(f)); n += 1
    if m.get("strengthened"): miss += 1
    if not m["caught_by"]: uncaught.append(i)
    out.append("| %s | %s | %s | %s | %s | %s |" % (i, m["property"], m["breaks"].replace("|", "/"),
               m["needs"].replace("|", "/"), ("; ".join(m["caught_by"]) or "**not caught** (" + m.get("not_caught", "")[:160] + " ...)"), m.get("strengthened") or "—"))
out.append("")
out.append("%d seeded changes; %d were caught by the checks as they stood, %d were first missed (by the owning "
           "check) and led to the extensions listed in the last column; %d are caught now, %d are not (%s; the reason "
           "is in the 'caught by' column and in §10.2).\n"
           % (n, n - miss - len(uncaught), miss, n - len(uncaught), len(uncaught), ", ".join(uncaught)))
p = os.path.join(HERE, "selftest_sensitivity.json")
if os.path.exists(p):
    r = json.load(open(p)); mu = r["mutants"]
    out.append("**Mutant catalogue** (`tools/sensitivity.py`, run of %s): %d one-line mutants, %d caught; "
               "%d of them also pass the repository's own test suite (column T). Equivalent rewrites: %d check "
               "runs, false alarms: %s.\n" % (r.get("started"), len(mu), sum(1 for x in mu if x["caught"]),
               sum(1 for x in mu if x.get("passes_repo_tests")), len(r["equivalent"]),
               r["summary"]["false_alarms"] or "none"))
    out.append("| mutant | prop | T | caught | first report |")
    out.append("|---|---|---|---|---|")
    for x in mu:
        out.append("| %s | %s | %s | %s | %s |" % (x["id"], x["property"],
                   {True: "pass", False: "fail", None: "?"}[x.get("passes_repo_tests")],
                   "yes" if x["caught"] else "**NO**", (x.get("first") or x.get("error") or "").strip().replace("|", "/")[:110]))
    out.append("")
    out.append("| behaviour-preserving rewrite | checks run | result |")
    out.append("|---|---|---|")
    eq = {}
    for x in r["equivalent"]:
        eq.setdefault(x["id"], []).append((x["property"], x["green"]))
    for k, v in eq.items():
        out.append("| %s | %s | %s |" % (k, ", ".join(p for p, _ in v), "green" if all(g for _, g in v) else "ALARM"))
s = open(os.path.join(HERE, "DESIGN.md")).read()
B, E = "<!-- BEGIN TABLES -->", "<!-- END TABLES -->"
if B not in s:
    s = s.replace("(filled from `selftest_sensitivity.json` and `/verif/seeded/*/meta.json`; see the end of this section)",
                  B + "\n" + E)
a, b = s.index(B), s.index(E)
s = s[:a + len(B)] + "\n" + "\n".join(out) + "\n" + s[b:]
open(os.path.join(HERE, "DESIGN.md"), "w").write(s)
print("tables written:", n, "seeded")
