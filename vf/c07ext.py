"""Stochastic model extension for C07: shared seeded streams, distributions,
pub/sub fan-out to listeners with default identity hash that draw random
numbers, schedule events and observe into simulation statistics."""
from vf import common, statsext

common.use_repo()
from pydsol.core import distributions as D                        # noqa: E402
from pydsol.core.pubsub import EventType, EventProducer, EventListener  # noqa: E402
from pydsol.core.streams import MersenneTwister                   # noqa: E402

USER_TYPES = [EventType("VF_C07_USER_%d" % i) for i in range(4)]

DISTS = {
    "Exponential": lambda s, p: D.DistExponential(s, *p),
    "Uniform": lambda s, p: D.DistUniform(s, *p),
    "Triangular": lambda s, p: D.DistTriangular(s, *p),
    "Normal": lambda s, p: D.DistNormal(s, *p),
    "Erlang": lambda s, p: D.DistErlang(s, *p),
    "Gamma": lambda s, p: D.DistGamma(s, *p),
    "Weibull": lambda s, p: D.DistWeibull(s, *p),
    "DiscreteUniform": lambda s, p: D.DistDiscreteUniform(s, *p),
    "Poisson": lambda s, p: D.DistPoisson(s, *p),
    "Bernoulli": lambda s, p: D.DistBernoulli(s, *p),
    "LogNormal": lambda s, p: D.DistLogNormal(s, *p),
    "Beta": lambda s, p: D.DistBeta(s, *p),
}


class UserListener(EventListener):
    """Default identity hash and equality on purpose."""

    def __init__(self, ext, idx, script):
        self.ext = ext
        self.idx = idx
        self.script = script

    def notify(self, event):
        self.ext.delivered(self, event)


class C07Ext(statsext.StatsExt):
    def __init__(self, case):
        super().__init__(case)
        self.deliveries = []
        self.leaf_count = 0

    def on_construct(self, runner, model):
        super().on_construct(runner, model)
        self.runner = runner
        self.model = model
        if self.case.get("default_stream_info"):
            from pydsol.core.streams import StreamInformation
            model.streams[0] = StreamInformation().get_stream("default")
        su = self.case.get("seed_update")
        if su:
            # the model registers its streams under ids (one generator may serve
            # several ids) and lets a seed updater set the seeds of this replication
            from pydsol.core.streams import StreamSeedUpdater, SimpleStreamUpdater
            streams = {name: model.streams[si % len(model.streams)] for name, si in su["names"]}
            upd = StreamSeedUpdater(dict(su["table"])) if su["table"] is not None \
                else SimpleStreamUpdater()
            upd.update_seeds(streams, su["r"])
        model.dists = [DISTS[name](model.streams[si % len(model.streams)], params)
                       for name, params, si in self.case["dists"]]
        model.user = EventProducer()
        self.listeners = []
        for li, (type_idx, script) in enumerate(self.case["listeners"]):
            l = UserListener(self, li, script)
            self.listeners.append(l)
            model.user.add_listener(USER_TYPES[type_idx], l)

    def draw(self, model, di):
        v = model.dists[di % len(model.dists)].draw()
        self.runner.hist.H.append(("draw", di, common.fhex(v)))
        return v

    def perform(self, runner, model, owner, idx, a):
        kind = a[0]
        if kind == "rel_draw":
            d = abs(float(self.draw(model, a[1])))
            ev = runner.sim.schedule_event_rel(d, model, "h", a[3], eid=a[2])
            model.handles[a[2]] = ev
        elif kind == "obs_draw":
            v = self.draw(model, a[2])
            self.observe(runner, model, a[1], v, abs(float(self.draw(model, a[2]))))
        elif kind == "fire":
            model.user.fire(USER_TYPES[a[1]], a[2])
        else:
            super().perform(runner, model, owner, idx, a)

    def delivered(self, listener, event):
        runner, model = self.runner, self.model
        t = USER_TYPES.index(event.event_type)
        runner.hist.H.append(("user", listener.idx, t, event.content,
                              common.fhex(runner.sim.simulator_time)))
        for a in listener.script:
            if a[0] == "draw":
                self.draw(model, a[1])
            elif a[0] == "sched_leaf":
                self.leaf_count += 1
                d = abs(float(self.draw(model, a[1])))
                runner.sim.schedule_event_rel(d, model, "leaf", a[2],
                                              tag="%d.%d" % (listener.idx, self.leaf_count))
            elif a[0] == "obs":
                self.observe(runner, model, a[1], self.draw(model, a[2]), 1.0)

    def on_leaf(self, runner, model, tag):
        if self.case.get("leaf_obs") is not None and model.stats:
            i = self.case["leaf_obs"] % len(model.stats)
            self.observe(runner, model, i, self.draw(model, 0), 0.5)
