"""detsim — a baton scheduler over real threads with a virtual wall clock.

Exactly one controlled thread runs at any instant; all others are parked on a
private real semaphore.  `sys.settrace` line events inside the *target files*
(simulator.py, pubsub.py of the tree under test) are the pre-emption points.
Blocking primitives used by the system under test (threading.Event, locks,
sleep) are replaced by cooperative versions that hand the baton on instead of
blocking the OS thread on SUT state.  `time.time()` reads the virtual clock.

Who runs next is decided by a *schedule source* (see schedules below) which
draws from one PRNG, or, in replay mode, follows a recorded decision list.
"""
import collections
import os
import sys
import threading as _real_threading
import time as _real_time
import types

# ---------------------------------------------------------------------------
# exceptions

class DetsimAbort(BaseException):
    """Raised in the *driver* (never from a trace function) to unwind a run
    that was aborted (step cap, deadlock).  BaseException so that the SUT's
    `except Exception` blocks do not swallow it."""


# ---------------------------------------------------------------------------
# logical threads

RUNNABLE, BLOCKED, SLEEPING, SETTLING, DONE = \
    "runnable", "blocked", "sleeping", "settling", "done"


class LThread:
    __slots__ = ("id", "name", "sem", "state", "wake_at", "real", "ident",
                 "cmd", "stalled_until")

    def __init__(self, id_, name):
        self.id = id_
        self.name = name
        self.sem = _real_threading.Semaphore(0)
        self.state = RUNNABLE
        self.wake_at = 0.0
        self.real = None
        self.ident = None
        self.cmd = None          # label of the command the thread executes
        self.stalled_until = None

    def __repr__(self):
        return "T%d(%s)" % (self.id, self.state)


ACTIVE = None            # the Sim of the run in progress (one per process)
TARGETS = {}             # co_filename -> small int tag
TARGET_NAMES = {}        # tag -> short name


# ---------------------------------------------------------------------------
# tracing

def _local_trace(frame, event, arg):
    if event == "line":
        sim = ACTIVE
        if sim is not None and not sim.free_running:
            tag = TARGETS[frame.f_code.co_filename]
            if sim.opcode_tags is None or tag not in sim.opcode_tags:
                sim.yield_point(tag, frame.f_lineno)
    return _local_trace


def _global_trace(frame, event, arg):
    if frame.f_code.co_filename in TARGETS:
        return _local_trace
    return None


# Bytecode granularity (a thread switch between two reads of one source line):
# sys.monitoring INSTRUCTION events on the code objects of chosen target files.
# (frame.f_trace_opcodes crashes CPython 3.12.1 when set while other threads run
# the same code; local events are switched only between runs, when no SUT
# thread is alive.)
_MON_TOOL = 3
_mon_codes = {}          # tag -> [code objects]
_mon_lines = {}          # code -> {offset: line}
_mon_enabled = set()     # tags currently instrumented
_mon_ready = False


def _collect_codes(module, filename):
    import types
    seen = []

    def add(code):
        if code in seen or code.co_filename != filename:
            return
        seen.append(code)
        for c in code.co_consts:
            if isinstance(c, types.CodeType):
                add(c)

    def scan(ns):
        for v in list(vars(ns).values()):
            f = getattr(v, "__func__", v)
            if isinstance(f, types.FunctionType):
                add(f.__code__)
            elif isinstance(v, property):
                for g in (v.fget, v.fset, v.fdel):
                    if g is not None and hasattr(g, "__code__"):
                        add(g.__code__)
            elif isinstance(v, type) and v.__module__ == module.__name__ and ns is module:
                scan(v)
    scan(module)
    return seen


def _on_instruction(code, offset):
    sim = ACTIVE
    if sim is not None and not sim.free_running and sim.opcode_tags:
        m = _mon_lines.get(code)
        if m is not None:
            sim.yield_point(TARGETS[code.co_filename], m.get(offset, 0), offset + 1)


def _set_opcode_tags(tags):
    """Switch instruction events on for exactly the given file tags."""
    global _mon_ready
    tags = set(tags or ())
    if tags == _mon_enabled:
        return
    mon = sys.monitoring
    if not _mon_ready:
        mon.use_tool_id(_MON_TOOL, "vf-detsim")
        mon.register_callback(_MON_TOOL, mon.events.INSTRUCTION, _on_instruction)
        _mon_ready = True
    for tag, codes in _mon_codes.items():
        want = tag in tags
        if want != (tag in _mon_enabled):
            for c in codes:
                mon.set_local_events(_MON_TOOL, c, mon.events.INSTRUCTION if want else 0)
    _mon_enabled.clear()
    _mon_enabled.update(tags)


# ---------------------------------------------------------------------------
# the simulator

class Sim:
    def __init__(self, schedule, step_cost=0.0, max_steps=200000,
                 oversleep=None, watch=None, t0=1000.0):
        self.schedule = schedule
        self.step_cost = step_cost
        self.max_steps = max_steps
        self.oversleep = oversleep      # callable(dt) -> dt' or None
        self.watch = watch              # callable(sim, lt) at yield points
        self.clock = t0
        self.t0 = t0
        self.step = 0
        self.ydigest = 0
        self.threads = []
        self.current = None
        self.driver = None
        self.log = []                   # scheduling log (switches, wakes)
        self.decisions = []             # [(step, to_thread_id)]
        self.aborted = None
        self.free_running = False
        self.n_switch = 0
        self.n_timer_fire = 0
        self.n_clock_jump = 0
        self.n_yields_by_thread = collections.Counter()
        self.sites = []                 # (tag, line) per switch, in order
        self.clock_jumps = {}           # step -> delta (fault plan)
        self.n_fault_clock_jump = 0
        self.jump_total = 0.0           # sum of injected wall-clock steps (clock - jump_total is monotonic)
        self.n_stall = 0
        self.atomic = 0                 # >0: harness code, no yield points
        self.stall_rng = None           # fault: a pre-empted thread is stalled
        self.stall_prob = 0.0
        self.stall_choices = (0.0005, 0.5, 1.5)
        self.replay_stalls = None       # step -> dt in replay mode
        self.opcode_tags = None         # set of file tags pre-emptible per bytecode
        self.eager = None               # fault: [poller thread, predicate, stall, delay]
        self.n_eager = 0

    # -- registration -------------------------------------------------------
    def attach_driver(self):
        lt = LThread(0, "driver")
        lt.real = _real_threading.current_thread()
        lt.ident = _real_threading.get_ident()
        self.threads.append(lt)
        self.current = lt
        self.driver = lt
        return lt

    def register_thread(self, real):
        lt = LThread(len(self.threads), real.name)
        lt.real = real
        self.threads.append(lt)
        return lt

    def me(self):
        return self.current

    # -- time ---------------------------------------------------------------
    def now(self):
        return self.clock

    def _wake_due(self):
        woke = None
        for t in self.threads:
            if t.state == SLEEPING and t.wake_at <= self.clock:
                t.state = RUNNABLE
                woke = t if woke is None else woke
        return woke

    # -- yield points -------------------------------------------------------
    def yield_point(self, tag, line, sub=0):
        if self.atomic:
            return
        lt = self.current
        self.step += 1
        self.ydigest = ((self.ydigest * 1000003) ^ (lt.id * 7919 + tag * 100003
                                                    + line + sub * 15485863)) & 0xFFFFFFFFFFFFFFFF
        self.clock += self.step_cost
        if self.watch is not None:
            self.watch(self, lt)
        if self.step >= self.max_steps:
            self.abort("step-cap")
            return
        eg = self.eager
        if eg is not None and lt is not eg[0] and eg[0].state == SLEEPING:
            # a poller on another core: it sees the state it waits for a few
            # lines after publication, while the publishing thread is descheduled
            self.atomic += 1
            try:
                hit = eg[1]()
            finally:
                self.atomic -= 1
            if hit:
                if eg[3] > 0:
                    eg[3] -= 1
                else:
                    self.eager = None
                    self.n_eager += 1
                    self._preempt(lt, eg[0], tag, line, force_stall=eg[2])
                    return
        due = self._wake_due() if self.step_cost else None
        target = self.schedule.at_yield(self, lt, tag, line, due)
        if target is not None and target is not lt:
            self._preempt(lt, target, tag, line)

    def coop_point(self, what):
        """A yield point inside a cooperative primitive (before the op)."""
        if self.free_running:
            return
        self.yield_point(0, what)

    def _preempt(self, lt, target, tag, line, force_stall=None):
        if target.state == SLEEPING:
            # a timer fires while another thread is in the middle of something
            if target.wake_at > self.clock:
                self.clock = target.wake_at
            target.state = RUNNABLE
            self._wake_due()
            self.n_timer_fire += 1
        elif target.state != RUNNABLE:
            return
        self.n_switch += 1
        self.sites.append((tag, line))
        stall = force_stall
        if self.replay_stalls is not None:
            stall = self.replay_stalls.get(self.step)
        elif self.stall_prob and self.stall_rng.random() < self.stall_prob:
            stall = self.stall_choices[self.stall_rng.randrange(len(self.stall_choices))]
        if stall:
            # the pre-empted thread is descheduled for `stall` virtual seconds
            lt.state = SLEEPING
            lt.wake_at = self.clock + stall
            self.n_stall += 1
            self.decisions.append((self.step, target.id, stall))
        else:
            self.decisions.append((self.step, target.id))
        self.log.append(("sw", self.step, lt.id, target.id, tag, line))
        self._handoff(lt, target)

    def _handoff(self, lt, target):
        self.current = target
        target.sem.release()
        lt.sem.acquire()
        # resumed: we hold the baton again

    # -- blocking -----------------------------------------------------------
    def _next_after_block(self, lt):
        """Choose who runs when `lt` cannot continue.  Returns an LThread
        (possibly lt itself when it is the earliest sleeper) or None when the
        whole system is quiescent and nobody waits for quiescence."""
        cands = [t for t in self.threads if t.state == RUNNABLE and t is not lt]
        if cands:
            if len(cands) == 1:
                return cands[0]
            self.step += 1
            t = self.schedule.pick(self, cands)
            self.decisions.append((self.step, t.id))
            return t
        sleepers = [t for t in self.threads if t.state == SLEEPING]
        if sleepers:
            t = min(sleepers, key=lambda x: (x.wake_at, x.id))
            if t.wake_at > self.clock:
                self.clock = t.wake_at
                self.n_clock_jump += 1
            t.state = RUNNABLE
            self._wake_due()
            return t
        if self.driver.state == SETTLING:
            self.driver.state = RUNNABLE
            return self.driver
        return None

    def block_current(self, state, wake_at=None):
        lt = self.current
        lt.state = state
        if wake_at is not None:
            lt.wake_at = wake_at
        nxt = self._next_after_block(lt)
        if nxt is None:
            # nobody can run and the driver is not waiting for quiescence
            self.abort("deadlock")
            return
        if nxt is lt:
            return
        self.log.append(("bl", self.step, lt.id, nxt.id, state))
        self._handoff(lt, nxt)

    def thread_exit(self, lt):
        lt.state = DONE
        if self.aborted:
            return
        nxt = self._next_after_block(lt)
        self.log.append(("ex", self.step, lt.id, -1 if nxt is None else nxt.id))
        if nxt is None:
            return
        self.current = nxt
        nxt.sem.release()

    # -- driver services ----------------------------------------------------
    def settle(self):
        """Let every other thread run until it blocks (quiescence)."""
        self.check_abort()
        lt = self.current
        assert lt is self.driver
        others = [t for t in self.threads
                  if t is not lt and t.state in (RUNNABLE, SLEEPING)]
        if not others:
            return
        self.block_current(SETTLING)
        self.check_abort()

    def sleep(self, dt):
        self.check_abort()
        if self.free_running:
            self.clock += max(dt, 0.0)
            return
        self.coop_point(1)
        if self.oversleep is not None:
            dt = self.oversleep(dt)
        self.block_current(SLEEPING, self.clock + max(dt, 0.0))
        self.check_abort()

    def check_abort(self):
        if self.aborted and self.current is self.driver \
                and _real_threading.get_ident() == self.driver.ident:
            raise DetsimAbort(self.aborted)

    def abort(self, reason):
        """Stop scheduling: every non-driver thread parks for ever, the
        driver free-runs to its next cooperative call, where DetsimAbort
        is raised.  The worker process must exit after such a run."""
        if self.aborted:
            return
        self.aborted = reason
        self.free_running = True
        lt = self.current
        if lt is not self.driver:
            self.current = self.driver
            if self.driver.state in (SLEEPING, SETTLING, BLOCKED):
                self.driver.state = RUNNABLE
            self.driver.sem.release()
            lt.sem.acquire()      # parks for ever

    # -- summary ------------------------------------------------------------
    def live_threads(self):
        return [t for t in self.threads if t is not self.driver
                and t.state != DONE]


# ---------------------------------------------------------------------------
# cooperative primitives

class _Waiters:
    __slots__ = ("_waiters",)

    def __init__(self):
        self._waiters = collections.deque()


class CoopEvent:
    """threading.Event look-alike.  `_cond._waiters` is emulated because the
    SUT peeks at it (SimulatorWorkerThread.is_waiting); like CPython's
    Condition.notify_all, set() empties it."""

    def __init__(self):
        self._flag = False
        self._cond = _Waiters()

    def is_set(self):
        return self._flag

    isSet = is_set

    def set(self):
        sim = ACTIVE
        if sim is not None:
            sim.coop_point(2)
        self._flag = True
        w = self._cond._waiters
        while w:
            lt = w.popleft()
            if lt.state == BLOCKED or lt.state == SLEEPING:
                lt.state = RUNNABLE

    def clear(self):
        sim = ACTIVE
        if sim is not None:
            sim.coop_point(3)
        self._flag = False

    def wait(self, timeout=None):
        sim = ACTIVE
        if sim is None or sim.free_running:
            if sim is not None:
                sim.check_abort()
            return self._flag
        sim.coop_point(4)
        if self._flag:
            return True
        lt = sim.current
        self._cond._waiters.append(lt)
        if timeout is None:
            sim.block_current(BLOCKED)
        else:
            sim.block_current(SLEEPING, sim.clock + max(timeout, 0.0))
            try:
                self._cond._waiters.remove(lt)
            except ValueError:
                pass
        sim.check_abort()
        return self._flag


class CoopLock:
    def __init__(self):
        self._owner = None
        self._waiters = collections.deque()

    def acquire(self, blocking=True, timeout=-1):
        sim = ACTIVE
        if sim is None or sim.free_running:
            if self._owner is None:
                self._owner = True
                return True
            return False
        sim.coop_point(5)
        lt = sim.current
        deadline = None if timeout is None or timeout < 0 else sim.clock + timeout
        while self._owner is not None:
            if not blocking:
                return False
            if deadline is not None and sim.clock >= deadline:
                return False
            self._waiters.append(lt)
            if deadline is None:
                sim.block_current(BLOCKED)
            else:
                sim.block_current(SLEEPING, deadline)
                try:
                    self._waiters.remove(lt)
                except ValueError:
                    pass
            sim.check_abort()
            if sim.aborted:
                return False
        self._owner = lt
        return True

    def release(self):
        sim = ACTIVE
        if self._owner is None:
            raise RuntimeError("release unlocked lock")
        self._owner = None
        while self._waiters:
            lt = self._waiters.popleft()
            if lt.state in (BLOCKED, SLEEPING):
                lt.state = RUNNABLE
        if sim is not None:
            sim.coop_point(6)

    def locked(self):
        return self._owner is not None

    def __enter__(self):
        self.acquire()
        return self

    def __exit__(self, *a):
        self.release()


class CoopRLock(CoopLock):
    def __init__(self):
        super().__init__()
        self._count = 0

    def acquire(self, blocking=True, timeout=-1):
        sim = ACTIVE
        me = sim.current if sim is not None else True
        if self._owner is not None and self._owner is me:
            self._count += 1
            return True
        ok = super().acquire(blocking, timeout)
        if ok:
            self._count = 1
        return ok

    def release(self):
        if self._owner is None:
            raise RuntimeError("cannot release un-acquired lock")
        self._count -= 1
        if self._count == 0:
            super().release()

    def _is_owned(self):
        sim = ACTIVE
        me = sim.current if sim is not None else True
        return self._owner is not None and self._owner is me


class CoopCondition:
    def __init__(self, lock=None):
        self._lock = lock if lock is not None else CoopRLock()
        self._waiters = collections.deque()
        self.acquire = self._lock.acquire
        self.release = self._lock.release

    def __enter__(self):
        self._lock.acquire()
        return self

    def __exit__(self, *a):
        self._lock.release()

    def wait(self, timeout=None):
        sim = ACTIVE
        if sim is None or sim.free_running:
            return False
        lt = sim.current
        # release fully
        saved = getattr(self._lock, "_count", 1)
        if isinstance(self._lock, CoopRLock):
            self._lock._count = 1
        self._lock.release()
        tok = [lt, False]
        self._waiters.append(tok)
        if timeout is None:
            sim.block_current(BLOCKED)
        else:
            sim.block_current(SLEEPING, sim.clock + max(timeout, 0.0))
            if tok in self._waiters:
                self._waiters.remove(tok)
        sim.check_abort()
        self._lock.acquire()
        if isinstance(self._lock, CoopRLock):
            self._lock._count = saved
        return tok[1]

    def wait_for(self, predicate, timeout=None):
        sim = ACTIVE
        end = None if timeout is None else sim.clock + timeout
        result = predicate()
        while not result:
            if end is not None:
                rem = end - sim.clock
                if rem <= 0:
                    break
                self.wait(rem)
            else:
                self.wait()
            result = predicate()
        return result

    def notify(self, n=1):
        while self._waiters and n > 0:
            tok = self._waiters.popleft()
            tok[1] = True
            if tok[0].state in (BLOCKED, SLEEPING):
                tok[0].state = RUNNABLE
            n -= 1

    def notify_all(self):
        self.notify(len(self._waiters))

    notifyAll = notify_all


class CoopSemaphore:
    def __init__(self, value=1):
        self._value = value
        self._cond = CoopCondition(CoopLock())

    def acquire(self, blocking=True, timeout=None):
        with self._cond:
            while self._value == 0:
                if not blocking:
                    return False
                if not self._cond.wait(timeout) and timeout is not None:
                    return False
            self._value -= 1
            return True

    def release(self, n=1):
        with self._cond:
            self._value += n
            self._cond.notify(n)

    __enter__ = acquire

    def __exit__(self, *a):
        self.release()


def coop_sleep(dt):
    sim = ACTIVE
    if sim is None:
        return
    sim.sleep(dt)


def virtual_time():
    sim = ACTIVE
    if sim is None:
        return 1000.0
    if sim.clock_jumps and not sim.free_running:
        # fault: the wall clock steps at a chosen call of time.time()
        sim._time_calls = getattr(sim, "_time_calls", 0) + 1
        d = sim.clock_jumps.get(sim._time_calls)
        if d:
            before = sim.clock
            sim.clock = max(sim.t0, sim.clock + d)
            sim.jump_total += sim.clock - before
            sim.n_fault_clock_jump += 1
            sim._wake_due()
    return sim.clock


class _ShimModule(types.ModuleType):
    def __init__(self, name, real, overrides):
        super().__init__(name)
        self.__dict__["_real"] = real
        self.__dict__.update(overrides)

    def __getattr__(self, item):
        return getattr(self.__dict__["_real"], item)


THREADING_SHIM = _ShimModule("threading", _real_threading, dict(
    Event=CoopEvent, Lock=CoopLock, RLock=CoopRLock, Condition=CoopCondition,
    Semaphore=CoopSemaphore, BoundedSemaphore=CoopSemaphore))
TIME_SHIM = _ShimModule("time", _real_time, dict(
    time=virtual_time, sleep=coop_sleep, monotonic=virtual_time,
    perf_counter=virtual_time))

_IDENTITY_MAP = None


def _identity_map():
    global _IDENTITY_MAP
    if _IDENTITY_MAP is None:
        _IDENTITY_MAP = [
            (_real_threading, THREADING_SHIM),
            (_real_time, TIME_SHIM),
            (_real_time.sleep, coop_sleep),
            (_real_time.time, virtual_time),
            (_real_time.monotonic, virtual_time),
            (_real_time.perf_counter, virtual_time),
            (_real_threading.Event, CoopEvent),
            (_real_threading.Lock, CoopLock),
            (_real_threading.RLock, CoopRLock),
            (_real_threading.Condition, CoopCondition),
            (_real_threading.Semaphore, CoopSemaphore),
            (_real_threading.BoundedSemaphore, CoopSemaphore),
        ]
    return _IDENTITY_MAP


_patched = []
_orig_thread_start = _real_threading.Thread.start


def _patched_thread_start(self):
    sim = ACTIVE
    if sim is None or _real_threading.get_ident() != getattr(sim.current, "ident", None):
        return _orig_thread_start(self)
    if sim.free_running:
        sim.check_abort()
    lt = sim.register_thread(self)
    orig_run = self.run

    def run_wrapper():
        lt.ident = _real_threading.get_ident()
        sys.settrace(_global_trace)
        lt.sem.acquire()            # parked until first scheduled
        try:
            orig_run()
        finally:
            sys.settrace(None)
            sim.thread_exit(lt)

    self.run = run_wrapper
    _orig_thread_start(self)
    sim.coop_point(7)


def install(modules, target_files):
    """Patch the seams of the given SUT modules by identity and register the
    files whose line events are pre-emption points.  Idempotent."""
    if _patched:
        return
    for i, fn in enumerate(target_files):
        TARGETS[fn] = i + 1
        TARGET_NAMES[i + 1] = os.path.basename(fn)
    for mod in modules:
        fn = getattr(mod, "__file__", None)
        if fn in TARGETS:
            codes = _collect_codes(mod, fn)
            _mon_codes[TARGETS[fn]] = codes
            for c in codes:
                _mon_lines[c] = {off: line for start, end, line in c.co_lines()
                                 if line is not None for off in range(start, end, 2)}
    for mod in modules:
        for name, val in list(vars(mod).items()):
            for real, shim in _identity_map():
                if val is real:
                    _patched.append((mod, name, val))
                    setattr(mod, name, shim)
                    break
    _real_threading.Thread.start = _patched_thread_start


def uninstall():
    global ACTIVE
    for mod, name, val in _patched:
        setattr(mod, name, val)
    _patched.clear()
    _real_threading.Thread.start = _orig_thread_start
    TARGETS.clear()
    ACTIVE = None


def begin(sim):
    """Start a controlled run on the calling thread (the driver)."""
    global ACTIVE
    if ACTIVE is not None:
        raise RuntimeError("nested detsim run")
    sim.attach_driver()
    _set_opcode_tags(sim.opcode_tags)
    ACTIVE = sim
    sys.settrace(_global_trace)
    return sim


def end(sim):
    global ACTIVE
    sys.settrace(None)
    ACTIVE = None


# ---------------------------------------------------------------------------
# schedule sources

class S0:
    """Run to block; the lowest-numbered runnable thread continues.  With
    step_cost 0 the run thread is infinitely fast (sequential semantics)."""
    name = "S0"

    def at_yield(self, sim, lt, tag, line, due):
        return None

    def pick(self, sim, cands):
        return cands[0]


class SRandom:
    """Bounded random pre-emption: at a yield point where some other thread
    could run (runnable, or sleeping = a timer that may fire), switch with
    probability p, at most d times per run."""
    name = "S-pct"

    def __init__(self, rng, p, d, timer_prob=0.6):
        self.rng = rng
        self.p = p
        self.left = d
        self.d0 = d
        self.timer_prob = timer_prob

    def refill(self):
        """A fresh pre-emption budget (per driver command instead of per run)."""
        self.left = self.d0

    def _others(self, sim, lt):
        return [t for t in sim.threads
                if t is not lt and t.state in (RUNNABLE, SLEEPING)]

    def at_yield(self, sim, lt, tag, line, due):
        if due is not None and due is not lt \
                and self.rng.random() < self.timer_prob:
            return due
        if self.left <= 0:
            return None
        others = self._others(sim, lt)
        if not others:
            return None
        if self.rng.random() < self.p:
            self.left -= 1
            return others[self.rng.randrange(len(others))]
        return None

    def pick(self, sim, cands):
        return cands[self.rng.randrange(len(cands))]


class SSite(SRandom):
    """Pre-emptions placed at *interesting lines* (state writes, wake-ups,
    clears, waits, fires): probability q at such a line, p elsewhere."""
    name = "S-site"

    def __init__(self, rng, sites, q, p, d, timer_prob=0.6):
        super().__init__(rng, p, d, timer_prob)
        self.sites_set = sites      # set of (tag, line)
        self.q = q

    def at_yield(self, sim, lt, tag, line, due):
        if due is not None and due is not lt \
                and self.rng.random() < self.timer_prob:
            return due
        if self.left <= 0:
            return None
        hot = (tag, line) in self.sites_set
        if not hot and self.p <= 0:
            return None
        others = self._others(sim, lt)
        if not others:
            return None
        if self.rng.random() < (self.q if hot else self.p):
            self.left -= 1
            return others[self.rng.randrange(len(others))]
        return None


class SReplay:
    """Follow a recorded decision list [(step, thread id)] exactly."""
    name = "replay"

    def __init__(self, decisions):
        self.map = {}
        self.stalls = {}
        for d in decisions:
            self.map[d[0]] = d[1]
            if len(d) > 2 and d[2]:
                self.stalls[d[0]] = d[2]
        self.misses = 0

    def at_yield(self, sim, lt, tag, line, due):
        tid = self.map.get(sim.step)
        if tid is None:
            return None
        if tid < len(sim.threads):
            t = sim.threads[tid]
            if t is not lt and t.state in (RUNNABLE, SLEEPING):
                return t
        self.misses += 1
        return None

    def pick(self, sim, cands):
        tid = self.map.get(sim.step)
        for t in cands:
            if t.id == tid:
                return t
        self.misses += 1
        return cands[0]
