"""Exact-rational reference for tallies (documented textbook definitions)
and tolerance bounds that any numerically reasonable one- or two-pass
implementation meets."""
import math
from fractions import Fraction
from statistics import NormalDist

EPS = 2.0 ** -52
NAN = float("nan")


def F(x):
    return Fraction(x)


def tally_exact(xs):
    """xs: accepted observations (ints/floats).  Returns dict getter ->
    (exact value as Fraction/int or 'nan', absolute tolerance)."""
    n = len(xs)
    out = {}
    fx = [F(x) for x in xs]
    out["n"] = (n, 0)
    s = sum(fx, Fraction(0))
    maxabs = max((abs(x) for x in fx), default=Fraction(0))
    base = 64 * (n + 8) * EPS
    out["sum"] = (s, float(base * n * maxabs) if n else 0.0)
    if n == 0:
        for g in ("min", "max", "mean", "variance", "variance(unbiased)", "stdev",
                  "stdev(unbiased)", "skewness", "skewness(unbiased)", "kurtosis",
                  "kurtosis(unbiased)", "excess_kurtosis", "excess_kurtosis(unbiased)"):
            out[g] = ("nan", 0)
        out["ci"] = ("nan", 0)
        return out
    out["min"] = (min(fx), 0)
    out["max"] = (max(fx), 0)
    mean = s / n
    out["mean"] = (mean, float(base * maxabs))
    d = [x - mean for x in fx]
    m2 = sum((v * v for v in d), Fraction(0))
    m3 = sum((v * v * v for v in d), Fraction(0))
    m4 = sum((v ** 4 for v in d), Fraction(0))
    var = m2 / n
    # condition number of the data: kappa = sqrt(1 + mean^2 / var)
    if m2 > 0:
        kappa = math.sqrt(1.0 + float(mean * mean / var))
    else:
        kappa = 1.0
    out["_kappa"] = kappa
    rel2 = base * (1.0 + kappa)
    absfloor2 = float(base * maxabs * maxabs)     # cancellation floor when var ~ 0
    out["variance"] = (var, float(var) * rel2 + absfloor2)
    sd = math.sqrt(var)
    out["stdev"] = (_sqrt_marker(var), sd * rel2 + math.sqrt(absfloor2))
    if n > 1:
        svar = m2 / (n - 1)
        out["variance(unbiased)"] = (svar, float(svar) * rel2 + absfloor2)
        out["stdev(unbiased)"] = (_sqrt_marker(svar),
                                  math.sqrt(svar) * rel2 + math.sqrt(absfloor2))
    else:
        out["variance(unbiased)"] = ("nan", 0)
        out["stdev(unbiased)"] = ("nan", 0)
    # skewness
    if n > 1 and m2 > 0:
        skew = float(m3 / n) / float(var) ** 1.5
        b3 = float(sum((abs(v) ** 3 for v in d), Fraction(0)) / n) / float(var) ** 1.5
        rel3 = base * (1.0 + kappa) ** 3
        judged = rel3 < 1e-3
        out["skewness"] = (skew, rel3 * b3 + 1e-300) if judged else ("unjudged", 0)
        if n > 2:
            f = math.sqrt(n * (n - 1)) / (n - 2)
            out["skewness(unbiased)"] = (skew * f, (rel3 * b3) * f + 1e-300) \
                if judged else ("unjudged", 0)
        else:
            out["skewness(unbiased)"] = ("nan", 0)
    else:
        out["skewness"] = ("nan", 0)
        out["skewness(unbiased)"] = ("nan", 0)
    # kurtosis
    if n > 2 and m2 > 0:
        kurt = float(m4 / n) / float(var) ** 2
        rel4 = base * (1.0 + kappa) ** 4
        judged = rel4 < 1e-3
        out["kurtosis"] = (kurt, rel4 * kurt + 1e-300) if judged else ("unjudged", 0)
        out["excess_kurtosis"] = (kurt - 3.0, rel4 * kurt + 1e-300) \
            if judged else ("unjudged", 0)
        if n > 3:
            svar = float(m2 / (n - 1))
            ku = float(m4) / (n - 1) / svar / svar
            out["kurtosis(unbiased)"] = (ku, rel4 * ku + 1e-300) if judged else ("unjudged", 0)
            g2 = kurt - 3.0
            eu = ((n - 1) / (n - 2) / (n - 3)) * ((n + 1) * g2 + 6)
            out["excess_kurtosis(unbiased)"] = \
                (eu, rel4 * kurt * (n + 1) * ((n - 1) / (n - 2) / (n - 3)) + 1e-300) \
                if judged else ("unjudged", 0)
        else:
            out["kurtosis(unbiased)"] = ("nan", 0)
            out["excess_kurtosis(unbiased)"] = ("nan", 0)
    else:
        for g in ("kurtosis", "excess_kurtosis"):
            out[g] = ("nan", 0)
        for g in ("kurtosis(unbiased)", "excess_kurtosis(unbiased)"):
            out[g] = ("nan", 0)
    out["_m2"] = m2
    out["_mean"] = mean
    return out


def _sqrt_marker(fr):
    return ("sqrt", fr)


def value_of(exact):
    if isinstance(exact, tuple) and exact and exact[0] == "sqrt":
        return math.sqrt(exact[1])
    if isinstance(exact, Fraction):
        return float(exact)
    return exact


def compare(name, got, exact, tol):
    """Returns None when acceptable, else a message."""
    if exact == "unjudged":
        if isinstance(got, str):
            return "%s() %s" % (name, got)
        return None
    if isinstance(got, str):          # 'raised:...'
        return "%s() %s" % (name, got)
    if exact == "nan":
        if isinstance(got, float) and math.isnan(got):
            return None
        return "%s() returned %r where the statistic is undefined (NaN expected)" % (name, got)
    e = value_of(exact)
    if isinstance(got, float) and math.isnan(got):
        return "%s() returned NaN, the definition gives %r" % (name, e)
    if tol == 0:
        if got != e:
            return "%s() returned %r, exact value %r" % (name, got, e)
        return None
    if abs(got - e) > tol:
        return "%s() returned %r, the definition gives %r (|difference| %.3g > bound %.3g)" \
            % (name, got, e, abs(got - e), tol)
    return None


def ci_exact(xs, alpha, ex):
    n = len(xs)
    if n < 2:
        return "nan"
    mean = float(ex["_mean"])
    svar = float(ex["_m2"] / (n - 1))
    z = NormalDist(0.0, 1.0).inv_cdf(1.0 - alpha / 2.0)
    c = z * math.sqrt(svar / n)
    lo = max(float(min(F(x) for x in xs)), mean - c)
    hi = min(float(max(F(x) for x in xs)), mean + c)
    return lo, hi, c


def weighted_exact(obs):
    """obs: accepted (weight, value) pairs."""
    n = len(obs)
    out = {"n": (n, 0)}
    if n == 0:
        for g in ("min", "max", "weighted_mean", "weighted_variance",
                  "weighted_variance(unbiased)", "weighted_stdev",
                  "weighted_stdev(unbiased)"):
            out[g] = ("nan", 0)
        out["weighted_sum"] = (Fraction(0), 0)
        return out
    vals = [F(v) for w, v in obs]
    out["min"] = (min(vals), 0)
    out["max"] = (max(vals), 0)
    pos = [(F(w), F(v)) for w, v in obs if w > 0]
    W = sum((w for w, v in pos), Fraction(0))
    S = sum((w * v for w, v in pos), Fraction(0))
    M = len(pos)
    base = 64 * (n + 8) * EPS
    maxabs = max((abs(v) for w, v in pos), default=Fraction(0))
    out["weighted_sum"] = (S, float(base * W * maxabs) if M else 0.0)
    if W == 0:
        out["weighted_mean"] = ("unjudged", 0)          # must merely not raise
        for g in ("weighted_variance", "weighted_variance(unbiased)",
                  "weighted_stdev", "weighted_stdev(unbiased)"):
            out[g] = ("nan", 0)
        return out
    mu = S / W
    out["weighted_mean"] = (mu, float(base * maxabs))
    V = sum((w * (v - mu) ** 2 for w, v in pos), Fraction(0)) / W
    kappa = math.sqrt(1.0 + float(mu * mu / V)) if V > 0 else 1.0
    rel = base * (1.0 + kappa)
    floor = float(base * maxabs * maxabs)
    out["weighted_variance"] = (V, float(V) * rel + floor)
    out["weighted_stdev"] = (("sqrt", V), math.sqrt(V) * rel + math.sqrt(floor))
    if M > 1:
        Vu = V * M / (M - 1)
        out["weighted_variance(unbiased)"] = (Vu, float(Vu) * rel + floor)
        out["weighted_stdev(unbiased)"] = (("sqrt", Vu), math.sqrt(Vu) * rel + math.sqrt(floor))
    else:
        out["weighted_variance(unbiased)"] = ("nan", 0)
        out["weighted_stdev(unbiased)"] = ("nan", 0)
    return out


def signal_exact(points, t_end):
    """points: accepted (time, value) pairs with non-decreasing times; the
    piecewise-constant signal from the first time to t_end (None = still
    open: up to the last timestamp).  Returns weighted-style dict."""
    segs = []
    for i, (t, v) in enumerate(points):
        t2 = points[i + 1][0] if i + 1 < len(points) else t_end
        if t2 is None:
            break
        if t2 > t:
            segs.append((F(t2) - F(t), v))
    return weighted_exact_from_segments(segs)


def weighted_exact_from_segments(segs):
    obs = [(float(w), v) for w, v in segs]
    ex = weighted_exact([(w, v) for w, v in segs]) if segs else weighted_exact([])
    return ex
