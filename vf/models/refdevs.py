"""RefDEVS — the executable reference semantics of a DEVS replication.

Interprets a *model program* (plain data, see vf/program.py) with a pending
set ordered by (time, -priority, scheduling sequence number), the run horizon,
the fault plan embedded in the program (`fail` actions) and the error
strategy.  It is driven by the same command list as the real simulator, at
*quiescence semantics* (each command runs to completion before the next).

Everything is computed in exact arithmetic on the dyadic grid, in "clock
units" (for Duration clocks: multiples of the unit).
"""
import math

NOT_INITIALIZED, INITIALIZED, STARTING, STARTED, STOPPING, STOPPED, ENDED = \
    "NOT_INITIALIZED", "INITIALIZED", "STARTING", "STARTED", "STOPPING", \
    "STOPPED", "ENDED"

MAX_PRIORITY = 10
LOG_AND_CONTINUE, WARN_AND_CONTINUE, WARN_AND_PAUSE = 1, 2, 3

OK, REFUSED = "ok", "refused"


def is_number(x):
    return isinstance(x, (int, float)) and not isinstance(x, bool) \
        and not (isinstance(x, float) and math.isnan(x))


class RefDEVS:
    def __init__(self, program):
        self.p = program
        self.start, self.warmup_period, self.length = program["rep"]
        self.end = self.start + self.length
        self.warmup_time = self.start + self.warmup_period
        self.strategy = program.get("strategy", WARN_AND_PAUSE)
        self.run_state = NOT_INITIALIZED
        self.rep_state = NOT_INITIALIZED
        self.clock = program.get("initial_time", 0)
        self.pending = []          # list of (time, -prio, seq, eid)
        self.seq = 0
        self.trace = []            # (time, eid) of every executed handler, "W" for warm-up
        self.requests = []         # (eid, action index, outcome)
        self.handle = {}           # eid -> key tuple while it may be pending
        self.ever_initialized = False
        self.worker_alive = False
        self.pause_requested = False
        self.ended_by_handler = False
        self.inits = 0
        self.pause_at = set(program.get("_pause_at", ()))
        self.total_executed = 0
        self.callback_cmds = []    # (name, outcome) of commands issued from handlers
        self.obs = []              # observations since the last warm-up / initialize
        self.warm_done = False
        self.tc_done = set()

    # -- scheduling requests -------------------------------------------------
    def _request(self, time, prio, eid):
        if not is_number(time) or time < self.clock:
            return REFUSED
        self.seq += 1
        key = (time, -prio, self.seq, eid)
        self.pending.append(key)
        self.handle[eid] = key
        return OK

    def _perform(self, owner, idx, action):
        """Perform one action of a handler (or of construct_model when owner
        is None).  Returns 'fail' when the action raises (fault injection)."""
        kind = action[0]
        out = None
        if kind == "now":
            out = self._request(self.clock, action[2], action[1])
        elif kind == "rel":
            d = action[1]
            out = REFUSED if (not is_number(d) or d < 0) else \
                self._request(self.clock + d, action[3], action[2])
        elif kind in ("abs", "pre"):
            out = self._request(action[1], action[3], action[2])
        elif kind == "repre":
            # an executed pre-built event object scheduled again (its time is the
            # current clock) and cancelled at once: accepted, then removed
            out = "removed"
        elif kind == "bad":
            out = REFUSED
        elif kind == "cancel":
            key = self.handle.get(action[1])
            if key is not None and key in self.pending:
                self.pending.remove(key)
                out = "removed"
            else:
                out = "absent"
        elif kind == "fail":
            self.requests.append((owner, idx, "raise"))
            return "fail"
        elif kind == "cmd":
            self._cmd_from_handler(action[1], action[2:])
        elif kind == "strategy":
            self.strategy = action[1]      # the strategy in force when a handler fails governs
            out = None
        elif kind == "obs":
            self.obs.append((action[1], action[2],
                             action[3] if len(action) > 3 else None, self.clock))
            out = None
        elif kind in ("obsdraw", "draw", "fire", "noop", "nested"):
            out = None
        else:
            raise ValueError("unknown action %r" % (action,))
        if out is not None:
            # (what a request made after the handler's own cleanup() returns is not
            # specified: recorded as not judged)
            self.requests.append((owner, idx, "raise" if getattr(self, "cleaned_by_handler", False)
                                  else out))
        return None

    def _cmd_from_handler(self, name, args):
        out = self._cmd_from_handler_impl(name, args)
        self.callback_cmds.append((name, out))
        return out

    def _cmd_from_handler_impl(self, name, args):
        # a lifecycle command issued from inside a handler (run thread or
        # stepping caller): the simulator is running, so only stop and
        # end_replication take effect; everything else is refused.
        if name == "stop":
            if self.run_state in (STARTING, STARTED):
                if not getattr(self, "ignore_stops", False):
                    self.pause_requested = True
                return OK
            return REFUSED
        if name == "cleanup":
            # the run is given up after this handler (whose remaining requests are
            # still accepted); which run state is reported afterwards is not
            # specified, the replication state is NOT_INITIALIZED, the run thread ends
            self.cleaned_by_handler = True
            self.pause_requested = True
            return OK
        if name == "end_replication":
            self.ended_by_handler = True
            self.pending.clear()
            self.clock = max(self.clock, self.end)
            return OK
        return REFUSED      # start, step, run_up_to*, initialize while running

    # -- lifecycle commands at quiescence -----------------------------------
    def initialize(self, rep=None):
        if rep is None:
            rep = self.p["rep"]         # the harness passes the program's own settings
        if rep is not None:
            self.start, self.warmup_period, self.length = rep
            self.end = self.start + self.length
            self.warmup_time = self.start + self.warmup_period
        self.pending = []
        self.handle = {}
        self.ended_by_handler = False
        self.cleaned_by_handler = False
        self.obs = []
        self.warm_done = False
        self.tc_done = set()
        self.clock = self.start
        self.run_state = INITIALIZED
        self.rep_state = INITIALIZED
        self.ever_initialized = True
        self.worker_alive = True
        self.inits += 1
        self.trace_start = len(self.trace)
        for i, a in enumerate(self.p["roots"]):
            if self._perform(None, i, a) == "fail":
                break
        for i, a in enumerate(self.p.get("initial", ())):
            self._perform("init", i, a)
        self.seq += 1
        key = (self.warmup_time, -MAX_PRIORITY, self.seq, "W")
        if self.warmup_time >= self.clock:
            self.pending.append(key)
        return OK

    def _cleaned(self):
        self.run_state = NOT_INITIALIZED
        self.rep_state = NOT_INITIALIZED
        self.worker_alive = False

    def cleanup(self):
        self.cleaned_by_handler = False
        self.run_state = NOT_INITIALIZED
        self.rep_state = NOT_INITIALIZED
        self.worker_alive = False
        return OK

    def can_start(self):
        return (self.run_state not in (STARTING, STARTED, NOT_INITIALIZED)
                and self.rep_state in (INITIALIZED, STARTED)
                and self.clock <= self.end)

    def stop(self):
        # at quiescence the simulator is never running
        return REFUSED

    def end_replication(self):
        # generated only from (STOPPED, STARTED)
        self.pending.clear()
        self.clock = max(self.clock, self.end)
        self.run_state = ENDED
        self.rep_state = ENDED
        self.worker_alive = False
        return OK

    def _announce(self, t):
        """TIME_CHANGED(t) is notified after the imminent event was taken from the
        list and before the clock moves: a subscriber may schedule at t (the
        new event runs after the imminent one) or cancel (the imminent event
        is no longer pending).  Each planned reaction happens once per
        replication, at the first announcement of its time."""
        for idx, (T, a) in enumerate(self.p.get("tc_listener", ())):
            if T == t and idx not in self.tc_done:
                self.tc_done.add(idx)
                self._perform("L", idx, a)

    def _execute(self, key, announce_always=False):
        """Pop and execute one event; returns 'pause' if the run must stop
        after it."""
        self.pending.remove(key)
        t, _, _, eid = key
        assert t >= self.clock
        if announce_always or t != self.clock:
            self._announce(t)
        self.clock = t
        if eid in self.p.get("badsig", ()):
            # scheduled with a keyword the handler does not take: the call fails
            # before the handler runs (nothing of it is executed or recorded)
            return True
        self.trace.append((t, eid))
        failed = False
        if eid == "W":
            self.obs = []          # the warm-up resets the simulation statistics
            self.warm_done = True
            # (init_obs: subscribers of a statistic's own INITIALIZED notification, which
            # follows that statistic's reset; they come before the WARMUP subscribers
            # the model registered after creating its statistics)
            for i, v, w in list(self.p.get("init_obs", ())) + list(self.p.get("warmup_obs", ())):
                # a subscriber of the warm-up notification that observes (after the reset)
                self.obs.append((i % max(1, self.p.get("_n_stats", 1)), v, w, self.clock))
        if eid != "W":
            for i, a in enumerate(self.p["events"][str(eid)]):
                if self._perform(eid, i, a) == "fail":
                    failed = True
                    break
            if not failed:
                self.total_executed += 1
                if self.total_executed in self.pause_at:
                    self._cmd_from_handler("stop", ())
        return failed

    def _end(self):
        self.clock = max(self.clock, self.end) if self.ended_by_handler \
            else self.end
        self.run_state = ENDED
        self.rep_state = ENDED
        self.worker_alive = False
        self.pending_at_end = list(self.pending)

    def run(self, bound, inclusive):
        """start / run_up_to / run_up_to_including at quiescence."""
        if not self.can_start():
            return REFUSED
        self.run_state = STARTED
        self.rep_state = STARTED
        self.pause_requested = False
        while True:
            if self.cleaned_by_handler:
                self._cleaned()
                return OK
            if self.ended_by_handler:
                self._end()
                return OK
            if self.pause_requested:
                self.run_state = STOPPED
                return OK
            nxt = min(self.pending) if self.pending else None
            if nxt is None or nxt[0] > bound or (nxt[0] == bound and not inclusive):
                if bound >= self.end:
                    self.clock = self.end
                    self._end()
                else:
                    self.clock = bound
                    self.run_state = STOPPED
                return OK
            failed = self._execute(nxt)
            if failed and self.strategy == WARN_AND_PAUSE:
                self.pause_requested = True

    def step_at_boundary(self):
        nxt = min(self.pending) if self.pending else None
        return nxt is None or nxt[0] > self.end

    def step(self):
        if not self.can_start():
            return REFUSED
        self.run_state = STARTED
        self.rep_state = STARTED
        self.pause_requested = False
        nxt = min(self.pending) if self.pending else None
        self.last_step_failed = False
        if nxt is not None and nxt[0] <= self.end:
            self.last_step_failed = self._execute(nxt, True)    # step() always announces
        self.step_boundary = nxt is None or nxt[0] > self.end
        if self.cleaned_by_handler:
            self._cleaned()
            return OK
        if self.ended_by_handler:
            self._end()
            return OK
        self.run_state = STOPPED
        return OK

    # -- helpers ------------------------------------------------------------
    def pending_times(self):
        return sorted(k[0] for k in self.pending)

    def snapshot(self):
        return (self.run_state, self.rep_state, self.clock)
