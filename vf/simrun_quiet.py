"""Sink for the SUT's stdout/stderr/logging noise (worker processes only)."""
import io
import logging
import sys


class _Null(io.TextIOBase):
    def write(self, s):
        return len(s)

    def flush(self):
        pass


def quiet():
    sys.stdout = _Null()
    sys.stderr = _Null()
    logging.disable(logging.CRITICAL)
