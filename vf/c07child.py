"""Child interpreter for C07: runs every model of a batch under this
process's perturbation and prints one JSON line with the digests."""
import gc
import json
import sys

from vf import common, simrun, statsext
from vf.c07ext import C07Ext


def run_model(model_case, perturb):
    case = dict(model_case)
    case["id_offset"] = perturb.get("id_offset", 0)
    case["sched"] = perturb.get("sched") or {"kind": "S0"}
    pattern = perturb.get("pause", "none")
    if pattern == "none":
        case["commands"] = [["initialize"], ["start"], ["settle"], ["drain"]]
    elif pattern == "steps":
        case["commands"] = [["initialize"]] + [["step"]] * perturb.get("k", 3) \
            + [["drain"], ["settle"]]
    elif pattern == "driver_stops":
        # the caller thread stops the run at arbitrary points of the run thread
        cmds = [["initialize"]]
        for dt in perturb.get("sleeps", [0.0005, 0.001, 0.002]):
            cmds += [["start"], ["sleep", dt], ["stop"], ["settle"]]
        case["commands"] = cmds + [["drain"], ["settle"]]
    elif pattern == "listener_stops":
        case["listener_cmds"] = {"TIME_CHANGED": [[k, ["stop"]]
                                                  for k in perturb.get("occurrences", [2, 4])]}
        case["commands"] = [["initialize"], ["start"], ["settle"], ["drain"], ["settle"]]
    else:
        case["pause_at"] = perturb.get("pause_at", [2, 5])
        case["commands"] = [["initialize"], ["start"], ["settle"], ["drain"], ["settle"]]
    ext = C07Ext(case)
    r = simrun.Runner(case, ext=ext).run()
    H = r.hist.H
    core = [h[:3] if h[0] == "exe" else h for h in H if h[0] in ("exe", "user", "draw")]
    core = [(h[0], h[1], common.fhex(h[2])) if h[0] == "exe" else h for h in core]
    stats = []
    if not r.aborted:
        for i, sp in enumerate(case["stats"]):
            stats.append(statsext.read_all(r.model.stats[i], sp["kind"]))
    ntf = [(h[1], common.fhex(h[2]) if h[2] is not None else None)
           for h in H if h[0] == "ntf"]
    final = None if r.aborted else (r.final[0], r.final[1], common.fhex(r.final[2]))
    return {"core": common.digest([core, stats, final]),
            "full": common.digest([core, stats, final, ntf]),
            "aborted": r.aborted, "errors": ext.errors[:1],
            "n_exe": sum(1 for h in H if h[0] == "exe"),
            "n_user": sum(1 for h in H if h[0] == "user"),
            "n_draw": sum(1 for h in H if h[0] == "draw"),
            "final": final, "clean": r.clean}


def main():
    req = json.loads(sys.stdin.read())
    perturb = req["perturb"]
    simrun.quiet()
    simrun.install()
    if perturb.get("gc_off"):
        gc.disable()
    keep = []
    n = perturb.get("heap_noise", 0)
    if n:
        # shift object addresses: allocate garbage of varying sizes, keep some
        junk = [bytearray((i * 37) % 509 + 1) for i in range(n)]
        keep = junk[::7]
        del junk
    if perturb.get("prior_library_use"):
        # unrelated earlier use of the library in this process: default-constructed
        # objects are created and used (must not leak into later runs)
        from pydsol.core.streams import StreamInformation, MersenneTwister
        from pydsol.core.distributions import DistNormal, DistExponential
        for i in range(perturb["prior_library_use"]):
            si = StreamInformation()
            st = si.get_stream("default")
            [st.next_float() for _ in range(i + 1)]
            DistNormal(st, 0.0, 1.0).draw()
            DistExponential(MersenneTwister(i + 1), 2.0).draw()
    if perturb.get("prior_events"):
        from pydsol.core.pubsub import EventType
        for i in range(perturb["prior_events"]):
            EventType("VF_C07_NOISE_%d" % i)
    out = []
    for m in req["models"]:
        out.append(run_model(m, perturb))
        if any(not o["clean"] for o in out[-1:]):
            # zombie threads: stop here, report what we have
            break
    sys.__stdout__.write(json.dumps(out))
    sys.__stdout__.flush()
    import os
    os._exit(0)


if __name__ == "__main__":
    main()
