"""Execute a case (model program + command script + schedule) on the real
pydsol simulator under detsim and record the history."""
import io
import logging
import math
import sys

from vf import common, detsim

common.use_repo()

from pydsol.core import simulator as _simmod          # noqa: E402
from pydsol.core import pubsub as _pubsubmod          # noqa: E402
from pydsol.core import streams as _streamsmod        # noqa: E402
from pydsol.core.experiment import Replication        # noqa: E402
from pydsol.core.interfaces import SimulatorInterface, ReplicationInterface  # noqa: E402
from pydsol.core.model import DSOLModel               # noqa: E402
from pydsol.core.pubsub import EventListener          # noqa: E402
from pydsol.core.simevent import SimEvent, SimEventInterface   # noqa: E402
from pydsol.core.simulator import (DEVSSimulatorFloat, DEVSSimulatorInt,  # noqa: E402
                                   DEVSSimulatorDuration, RunState,
                                   ReplicationState, ErrorStrategy)
from pydsol.core.units import Duration                # noqa: E402
from pydsol.core.utils import DSOLError               # noqa: E402

UNIT_FACTOR = {"s": 1.0, "min": 60.0, "h": 3600.0}

SIM_EVENT_TYPES = [
    ("START_REPLICATION", ReplicationInterface.START_REPLICATION_EVENT),
    ("STARTING", SimulatorInterface.STARTING_EVENT),
    ("START", SimulatorInterface.START_EVENT),
    ("STOPPING", SimulatorInterface.STOPPING_EVENT),
    ("STOP", SimulatorInterface.STOP_EVENT),
    ("TIME_CHANGED", SimulatorInterface.TIME_CHANGED_EVENT),
    ("WARMUP", ReplicationInterface.WARMUP_EVENT),
    ("END_REPLICATION", ReplicationInterface.END_REPLICATION_EVENT),
]
_TYPE_NAME = {id(et): n for n, et in SIM_EVENT_TYPES}

# messages of injected handler faults: text that is harmless as data but not
# when a logger / formatter treats it as a template
FAULT_MESSAGES = ["injected fault in %s", "utilisation above 95%% in %s", "bad key {%s}",
                  "{0} {self} %%s %%d in %s", "", "line one\nline two %s",
                  "\u00e9v\u00e9nement %s \u2713", "%s" + " x" * 400]

class HandlerGaveUp(BaseException):
    """A user failure class that derives from BaseException, not Exception."""


EXC_TYPES = {"RuntimeError": RuntimeError, "ValueError": ValueError,
             "ZeroDivisionError": ZeroDivisionError, "KeyError": KeyError,
             "DSOLError": DSOLError, "AssertionError": AssertionError,
             # failures outside Exception: sys.exit() in a handler, an interrupt, own classes
             "SystemExit": SystemExit, "KeyboardInterrupt": KeyboardInterrupt,
             "HandlerGaveUp": HandlerGaveUp}


from vf.simrun_quiet import quiet  # noqa: E402,F401


_installed = False


def install():
    global _installed
    if not _installed:
        detsim.install([_simmod, _streamsmod],
                       [_simmod.__file__, _pubsubmod.__file__])
        _installed = True


_SITES = None


def interesting_sites():
    global _SITES
    if _SITES is None:
        _SITES = _interesting_sites()
    return _SITES


def _interesting_sites():
    """(tag, line) of lines in simulator.py that touch the shared lifecycle
    state or the wake-up flag, found by scanning the AST (robust to line
    renumbering)."""
    import ast
    with open(_simmod.__file__) as f:
        tree = ast.parse(f.read())
    tag = detsim.TARGETS[_simmod.__file__]
    names = {"_run_state", "_replication_state", "_run_until_time",
             "_runflag", "_finalized", "_running", "_run_until_including",
             "_simulator_time"}
    calls = {"wakeup", "clear", "wait", "is_waiting", "fire", "fire_timed",
             "set", "is_finalized", "cleanup", "_stop_impl", "_run",
             "is_stopping_or_stopped", "is_starting_or_running"}
    sites = set()
    for node in ast.walk(tree):
        if isinstance(node, (ast.Assign, ast.AugAssign, ast.AnnAssign)):
            tgts = node.targets if isinstance(node, ast.Assign) else [node.target]
            for t in tgts:
                if isinstance(t, ast.Attribute) and t.attr in names:
                    sites.add((tag, node.lineno))
                    sites.add((tag, node.end_lineno + 1))
        elif isinstance(node, ast.Call):
            f = node.func
            if isinstance(f, ast.Attribute) and f.attr in calls:
                sites.add((tag, node.lineno))
    return sites


class History:
    """The recorded history of one run.  Only one controlled thread runs at
    a time, so a plain list is race-free."""

    def __init__(self):
        self.H = []
        self.det = None

    def tid(self):
        d = self.det
        return d.current.id if d is not None else 0

    def cmd_label(self):
        d = self.det
        return d.current.cmd if d is not None else None


class OneShot(EventListener):
    def __init__(self, sim, et):
        self.sim = sim
        self.et = et
        self.n = 0

    def notify(self, event):
        self.n += 1
        self.sim.remove_listener(self.et, self)


class Collector(EventListener):
    def __init__(self, hist, hooks=None):
        self.hist = hist
        self.hooks = hooks or {}

    def notify(self, event):
        name = _TYPE_NAME.get(id(event.event_type), str(event.event_type))
        ts = getattr(event, "timestamp", None)
        h = self.hist
        h.H.append(("ntf", name, _num(ts), h.tid(), h.cmd_label()))
        hook = self.hooks.get(name)
        if hook:
            hook(name, event)

    def __eq__(self, other):
        return self is other

    __hash__ = object.__hash__


def _num(x):
    if x is None:
        return None
    if isinstance(x, bool):
        return x
    if isinstance(x, int):
        return x
    try:
        return float(x)
    except Exception:
        return repr(x)


class ProgramModel(DSOLModel):
    """The generated model: `construct_model` performs the root actions, the
    single handler `h` performs the actions of its event spec."""

    def __init__(self, simulator, runner):
        super().__init__(simulator)
        self.r = runner
        self.handles = {}
        self.executed = 0
        # events built once, before initialize(), and scheduled as objects
        # in construct_model (documented use of schedule_event(event))
        self.prebuilt = {}
        for a in runner.prog["roots"]:
            if a[0] == "pre":
                self.prebuilt[a[2]] = SimEvent(runner.tv(a[1]), self, "h", a[3], eid=a[2])

    def construct_model(self):
        if getattr(self, "fail_construct", False):
            # fault: the user's construct_model raises (once); the caller retries
            self.fail_construct = False
            self.r.fault("construct_model_raise")
            raise RuntimeError("injected fault in construct_model")
        self.handles = {}
        self.r.on_construct(self)
        for i, a in enumerate(self.r.prog["roots"]):
            self.r.perform(self, None, i, a)

    def h(self, eid):
        r = self.r
        sim = self.simulator
        self.executed += 1
        r.hist.H.append(("exe", eid, _num(sim.simulator_time), r.hist.tid()))
        for i, a in enumerate(r.prog["events"][str(eid)]):
            r.perform(self, eid, i, a)
        r.after_handler(self, eid)

    def init_hook(self):
        """Registered with Simulator.add_initial_method."""
        for i, a in enumerate(self.r.prog.get("initial", ())):
            self.r.perform(self, "init", i, a)

    def leaf(self, tag):
        """Handler of events scheduled by listeners (C07): no children."""
        r = self.r
        r.hist.H.append(("exe", "L%s" % tag, _num(self.simulator.simulator_time),
                         r.hist.tid()))
        if r.ext is not None:
            r.ext.on_leaf(r, self, tag)
        r.after_handler(self, "L%s" % tag)


class Entity:
    """A handler object that nobody but the event refers to (the usual
    `schedule_event_rel(d, Customer(...), "arrive")` idiom)."""

    def __init__(self, model):
        self.model = model

    def h(self, eid):
        self.model.h(eid=eid)

    def __repr__(self):
        # a half-initialised entity: printing it fails (an error report that prints
        # the handler object must cope)
        raise AttributeError("'Entity' object has no attribute 'name'")

    __str__ = __repr__


class SubEventA(SimEvent):
    """User subclasses of SimEvent (ids must still follow creation order across
    all event classes)."""


class SubEventB(SimEvent):
    """... and one that is a container (a batch of zero items): falsy."""

    def __len__(self):
        return 0


class CustomEvent(SimEventInterface):
    """An own implementation of SimEventInterface (documented as allowed): it
    is not derived from SimEvent and has only what the interface prescribes,
    plus the `_id` attribute the event list reads."""

    def __init__(self, time, model, eid, priority):
        self._time = time
        self._model = model
        self._eid = eid
        self._priority = priority
        # ids come from the same counter as SimEvent's so that scheduling
        # order remains the tie-break across both kinds of event
        self._id = SimEvent(time if isinstance(time, (int, float)) else 0.0, model, "h",
                            eid=eid)._id

    def execute(self):
        self._model.h(eid=self._eid)

    @property
    def time(self):
        return self._time

    @property
    def priority(self):
        return self._priority

    @property
    def id(self):
        return self._id

    def _key(self):
        return (self._time, -self._priority, self._id)

    def __lt__(self, o):
        return self._key() < (o.time, -o.priority, o._id)

    def __eq__(self, o):
        return self is o

    __hash__ = object.__hash__


class SizedProgramModel(ProgramModel):
    """A legal but unusual model: it has a length (entities in the system),
    which is 0 - i.e. the object is falsy - while the model is constructed."""

    def __len__(self):
        return 0 if not self.executed else self.executed


class Runner:
    """Runs one case.  Sub-classed / parameterised by the property checks
    through the `ext` hooks (statistics, streams, listener commands)."""

    def __init__(self, case, ext=None):
        self.case = case
        self.prog = case["program"]
        self.ext = ext
        self.hist = History()
        self.sim = None
        self.model = None
        self.model_b = None
        self.collector = None
        self.cmd_index = 0
        self.unit = self.prog.get("unit", "s")
        self.factor = UNIT_FACTOR[self.unit] if self.prog["clock"] == "duration" else 1
        self.pause_at = set(case.get("pause_at", []))
        self.total_executed = 0
        self.faults = {}
        self.probes = {}
        self.last_state = None
        self.listener_cmds = case.get("listener_cmds", {})
        self.listener_fired = {}
        self.cmd_steps = {}
        self.cmd_clock = {}
        self.tc_done = set()
        self.active_model = None
        self.refill = bool((case.get("sched") or {}).get("refill"))

    # -- values ------------------------------------------------------------
    def tv(self, x):
        """clock-unit number -> value of the simulator's time type"""
        c = self.prog["clock"]
        if c == "float":
            if self.prog.get("int_literals") and isinstance(x, (int, float)) \
                    and not isinstance(x, bool) and float(x).is_integer():
                # the model / caller writes whole numbers as int literals on a
                # float clock (as the library's own demos do)
                return int(x)
            return float(x)
        if c == "int":
            if isinstance(x, float) and not math.isnan(x) and not x.is_integer() \
                    and abs(x) < 2 ** 52:
                return x          # a fractional value on an int clock is passed as given
            return int(x) if not (isinstance(x, float) and math.isnan(x)) else x
        return Duration(float(x), self.unit)

    def ref_time(self, t):
        """clock-unit number -> number comparable with recorded times"""
        if self.prog["clock"] == "duration":
            return float(t) * self.factor
        if self.prog["clock"] == "int":
            # (a fractional bound of a bounded run leaves a fractional clock)
            return int(t) if float(t).is_integer() else float(t)
        return float(t)

    def make_replication(self, rep=None):
        s, w, l = rep or self.prog["rep"]
        return Replication("rep", self.case.get("rep_nr", 0), self.tv(s),
                           self.tv(w), self.tv(l))

    def make_simulator(self):
        c = self.prog["clock"]
        if c == "float":
            return DEVSSimulatorFloat("sim")
        if c == "int":
            return DEVSSimulatorInt("sim")
        return DEVSSimulatorDuration("sim", self.prog.get("display_unit") or self.unit)

    # -- hooks -------------------------------------------------------------
    def on_construct(self, model):
        if self.ext is not None:
            self.ext.on_construct(self, model)

    def after_handler(self, model, eid):
        self.total_executed += 1
        if self.case.get("late_tc") == self.total_executed:
            self.count("late_TIME_CHANGED_subscription")
            self.sim.add_listener(SimulatorInterface.TIME_CHANGED_EVENT, self.collector)
            self.hist.H.append(("tc_subscribed", self.cmd_index))
        if self.total_executed in self.pause_at:
            self.count("pause_from_handler")
            self.do_cmd_from_callback(["stop"], "handler")

    def count(self, name, n=1):
        self.probes[name] = self.probes.get(name, 0) + n

    def fault(self, name, n=1):
        self.faults[name] = self.faults.get(name, 0) + n

    # -- actions -----------------------------------------------------------
    def perform(self, model, owner, idx, a):
        sim = self.sim
        kind = a[0]
        H = self.hist.H
        if kind in ("now", "rel", "abs", "pre"):
            before = sim.eventlist().size()
            try:
                child = a[1] if kind == "now" else a[2]
                badsig = child in self.prog.get("badsig", ())
                if kind == "pre":
                    ev = sim.schedule_event(model.prebuilt[a[2]])
                elif badsig:
                    # fault: the event is scheduled with a keyword its handler does not
                    # take; the call itself fails (no frame of the handler ever exists)
                    self.fault("handler_call_mismatch")
                    if kind == "now":
                        ev = sim.schedule_event_now(model, "h", a[2], eid=a[1], bogus=1)
                    elif kind == "rel":
                        ev = sim.schedule_event_rel(self.tv(a[1]), model, "h", a[3],
                                                    eid=a[2], bogus=1)
                    else:
                        ev = sim.schedule_event_abs(self.tv(a[1]), model, "h", a[3],
                                                    eid=a[2], bogus=1)
                elif self.prog.get("custom_events") in ("subclass", "both") and child % 3 != 0:
                    # objects of SimEvent subclasses, mixed with plain SimEvents
                    if kind == "now":
                        t, prio = sim.simulator_time, a[2]
                    elif kind == "rel":
                        d = self.tv(a[1])
                        if not float(d) >= 0:
                            raise DSOLError("negative delay")
                        t, prio = sim.simulator_time + d, a[3]
                    else:
                        t, prio = self.tv(a[1]), a[3]
                    cls = SubEventA if child % 3 == 1 else SubEventB
                    ev = sim.schedule_event(cls(t, model, "h", prio, eid=child))
                elif self.prog.get("custom_events") in (True, "both") and child % 3 == 0:
                    # an own SimEventInterface implementation, handed over as an object
                    if kind == "now":
                        t, prio = sim.simulator_time, a[2]
                    elif kind == "rel":
                        d = self.tv(a[1])
                        if not float(d) >= 0:
                            raise DSOLError("negative delay")
                        t, prio = sim.simulator_time + d, a[3]
                    else:
                        t, prio = self.tv(a[1]), a[3]
                    ev = sim.schedule_event(CustomEvent(t, model, child, prio))
                else:
                    # every fourth event of such programs targets a temporary object
                    # that only the event itself keeps alive
                    tgt = Entity(model) if self.prog.get("temp_targets") and child % 4 == 1 \
                        else model
                    if self.prog.get("kwcalls"):
                        # the documented parameter names, passed by keyword
                        if kind == "now":
                            ev = sim.schedule_event_now(target=tgt, method="h", priority=a[2],
                                                        eid=a[1])
                        elif kind == "rel":
                            ev = sim.schedule_event_rel(delay=self.tv(a[1]), target=tgt,
                                                        method="h", priority=a[3], eid=a[2])
                        else:
                            ev = sim.schedule_event_abs(time=self.tv(a[1]), target=tgt,
                                                        method="h", priority=a[3], eid=a[2])
                    elif kind == "now":
                        ev = sim.schedule_event_now(tgt, "h", a[2], eid=a[1])
                    elif kind == "rel":
                        ev = sim.schedule_event_rel(self.tv(a[1]), tgt, "h", a[3], eid=a[2])
                    else:
                        ev = sim.schedule_event_abs(self.tv(a[1]), tgt, "h", a[3], eid=a[2])
                    del tgt
                model.handles[child] = ev
                out = "ok"
            except Exception as e:
                out = "refused:" + type(e).__name__
            H.append(("req", owner, idx, out, before, sim.eventlist().size()))
        elif kind == "repre":
            before = sim.eventlist().size()
            try:
                ev = model.prebuilt[a[1]]
                sim.schedule_event(ev)
                sim.cancel_event(ev)
                out = "removed" if sim.eventlist().size() == before else "still-pending"
            except Exception as e:
                out = "error:" + type(e).__name__
            H.append(("req", owner, idx, out, before, sim.eventlist().size()))
        elif kind == "cancel":
            ev = model.handles.get(a[1])
            if ev is None:
                ev = SimEvent(self.tv(self.prog["rep"][0]), model, "h", 5,
                              eid=-1)
            before = sim.eventlist().size()
            try:
                sim.cancel_event(ev)
                out = "removed" if sim.eventlist().size() == before - 1 else "absent"
            except Exception as e:
                out = "error:" + type(e).__name__
            H.append(("req", owner, idx, out, before, sim.eventlist().size()))
        elif kind == "bad":
            self.fault("illegal_request")
            before = sim.eventlist().size()
            out = self._bad(model, a[1])
            H.append(("req", owner, idx, out, before, sim.eventlist().size()))
        elif kind == "fail":
            self.fault("handler_raise")
            H.append(("req", owner, idx, "raise"))
            exc = EXC_TYPES[a[1]]
            if not issubclass(exc, Exception) and self.is_custom_event(owner):
                # failures outside Exception are only injected into handlers that the
                # library's own SimEvent.execute calls (it contains everything); what an
                # own SimEventInterface implementation lets escape is its own business
                exc = RuntimeError
            raise exc(FAULT_MESSAGES[int(owner or 0) % len(FAULT_MESSAGES)] % owner)
        elif kind == "cmd":
            self.do_cmd_from_callback(a[1:], "handler", owner, idx)
        elif kind == "nested":
            self.run_nested(a[1], owner, idx)
        elif kind == "strategy":
            # documented: the error strategy can be changed during the run
            self.count("strategy_changed_mid_run")
            if self.case.get("log_level") is not None:
                sim.set_error_strategy(a[1], self.case["log_level"])
            else:
                sim.set_error_strategy(a[1])
        elif self.ext is not None:
            self.ext.perform(self, model, owner, idx, a)
        else:
            raise ValueError("unknown action %r" % (a,))

    def _bad(self, model, kind):
        sim = self.sim
        now = sim.simulator_time
        one = self.tv(1)
        nan = float("nan")
        try:
            if kind == "past_abs":
                sim.schedule_event_abs(now - one, model, "h", 5, eid=-1)
            elif kind == "neg_rel":
                sim.schedule_event_rel(-one, model, "h", 5, eid=-1)
            elif kind == "tiny_neg_rel":
                # a negative delay that is absorbed by rounding when added to the clock
                d = -5.55e-17 if float(now) != 0.0 else -5e-324
                sim.schedule_event_rel(Duration(d) if self.prog["clock"] == "duration" else d,
                                       model, "h", 5, eid=-1)
            elif kind == "tiny_past_abs":
                import math as _m
                if self.prog["clock"] == "int":
                    t = now - 1
                elif self.prog["clock"] == "duration":
                    t = Duration(_m.nextafter(float(now), -_m.inf))
                else:
                    t = _m.nextafter(float(now), -_m.inf)
                sim.schedule_event_abs(t, model, "h", 5, eid=-1)
            elif kind == "nan_abs":
                sim.schedule_event_abs(
                    Duration(nan) if self.prog["clock"] == "duration" else nan,
                    model, "h", 5, eid=-1)
            elif kind == "nan_rel":
                sim.schedule_event_rel(
                    Duration(nan) if self.prog["clock"] == "duration" else nan,
                    model, "h", 5, eid=-1)
            elif kind == "str_abs":
                sim.schedule_event_abs("5", model, "h", 5, eid=-1)
            elif kind == "none_abs":
                sim.schedule_event_abs(None, model, "h", 5, eid=-1)
            elif kind == "str_rel":
                sim.schedule_event_rel("5", model, "h", 5, eid=-1)
            elif kind == "past_event":
                sim.schedule_event(SimEvent(now - one, model, "h", 5, eid=-1))
            elif kind in ("nan_event", "nan_sub_event", "nan_custom_event"):
                # an event OBJECT whose time is not a number
                t = Duration(nan) if self.prog["clock"] == "duration" else nan
                if kind == "nan_event":
                    ev = SimEvent(t, model, "h", 5, eid=-1)
                elif kind == "nan_sub_event":
                    ev = SubEventA(t, model, "h", 5, eid=-1)
                else:
                    ev = CustomEvent(t, model, -1, 5)
                sim.schedule_event(ev)
            elif kind == "past_custom_event":
                sim.schedule_event(CustomEvent(now - one, model, -1, 5))
            else:
                raise ValueError(kind)
            return "ok"
        except ValueError:
            if kind not in ("past_abs", "neg_rel", "nan_abs", "nan_rel", "tiny_neg_rel",
                            "tiny_past_abs", "str_abs", "none_abs", "str_rel", "past_event",
                            "nan_event", "nan_sub_event", "nan_custom_event",
                            "past_custom_event"):
                raise
            return "refused:ValueError"
        except Exception as e:
            return "refused:" + type(e).__name__

    def is_custom_event(self, eid):
        """Was event `eid` scheduled as an own SimEventInterface implementation?"""
        if not isinstance(eid, int) and not (isinstance(eid, str) and eid.isdigit()):
            return False
        e = int(eid)
        if e in self.prog.get("badsig", ()):
            return False
        pre = [a[2] for a in self.prog["roots"] if a[0] == "pre"]
        if e in pre:
            return False
        ce = self.prog.get("custom_events")
        if ce in ("subclass", "both") and e % 3 != 0:
            return False
        return ce in (True, "both") and e % 3 == 0

    def run_nested(self, spec, owner, idx):
        """A second simulator in the same process, created, run to its end and
        cleaned up from inside a handler (or construct_model) of the first one: a
        nested what-if run.  Neither simulator may notice the other."""
        self.count("nested_simulator_run")
        n = spec["n"]
        log = []
        ends = []

        class _Nested(DSOLModel):
            def construct_model(m):
                for k in range(1, n + 1):
                    m.simulator.schedule_event_abs(float(k), m, "tick", k=k)

            def tick(m, k):
                log.append(k)

        class _End(EventListener):
            def notify(l, event):
                ends.append(event.timestamp)
        simb = DEVSSimulatorFloat("nested")
        mb = _Nested(simb)
        bad = None
        try:
            simb.initialize(mb, Replication("nested", 0, 0.0, 0.0, float(n + 1)))
            simb.add_listener(ReplicationInterface.END_REPLICATION_EVENT, _End())
            guard = 0
            first = True
            while simb.run_state.name != "ENDED" and guard < 12:
                guard += 1
                try:
                    if first and spec.get("bound") is not None:
                        simb.run_up_to_including(float(spec["bound"]))
                    else:
                        simb.start()
                except DSOLError:
                    # refused: the two state fields were read while the run thread was
                    # between them (e.g. replication already ENDED, run state about to
                    # follow); look again
                    detsim.coop_sleep(0.001)
                    continue
                first = False
                polls = 0
                while simb.is_starting_or_running() and polls < 20000:
                    detsim.coop_sleep(0.001)
                    polls += 1
                # (STOPPING and ENDING are transient: the run thread finishes by itself)
                while (simb.run_state.name == "STOPPING"
                       or simb.replication_state.name == "ENDING") and polls < 40000:
                    detsim.coop_sleep(0.001)
                    polls += 1
                if first is False and spec.get("bound") is not None and guard == 1:
                    exp1 = [k for k in range(1, n + 1) if k <= spec["bound"]]
                    if log != exp1:
                        bad = "after run_up_to_including(%s) the nested simulator had " \
                              "executed %s, expected %s" % (spec["bound"], log, exp1)
                        break
            final = simb.run_state.name
            simb.cleanup()        # (waits for the run thread: its last notification included)
            if bad is None and (log != list(range(1, n + 1))
                                or final != "ENDED" or len(ends) != 1):
                bad = "the nested simulator executed %s (expected 1..%d), ended in state " \
                      "%s with %d END_REPLICATION notifications" \
                      % (log, n, final, len(ends))
        except Exception as e:     # noqa: BLE001 - reported as a finding of the run
            bad = "the nested simulator raised %s: %s" % (type(e).__name__, e)
        self.hist.H.append(("nested", owner, idx, bad))

    # -- commands ----------------------------------------------------------
    def snapshot(self):
        """Harness read of the observable state; not pre-emptible."""
        sim = self.sim
        det = self.hist.det
        det.atomic += 1
        try:
            # public API where there is one; the run bound has none
            return (sim.run_state.name, sim.replication_state.name,
                    _num(sim.simulator_time), _num(getattr(sim, "_run_until_time", None)),
                    getattr(sim, "_run_until_including", None), sim.eventlist().size())
        finally:
            det.atomic -= 1

    def predicates(self):
        """The documented state predicates must agree with run_state."""
        sim = self.sim
        det = self.hist.det
        det.atomic += 1
        try:
            rs = sim.run_state.name
            got = (sim.is_initialized(), sim.is_starting_or_running(),
                   sim.is_stopping_or_stopped())
        finally:
            det.atomic -= 1
        exp = (rs != "NOT_INITIALIZED", rs in ("STARTING", "STARTED"),
               rs not in ("STARTING", "STARTED"))
        if got != exp:
            return ("in run_state %s: (is_initialized, is_starting_or_running, "
                    "is_stopping_or_stopped) = %s, documented %s" % (rs, got, exp))
        return None

    def _call(self, cmd):
        sim = self.sim
        name = cmd[0]
        if name == "start":
            sim.start()
        elif name == "step":
            sim.step()
        elif name == "stop":
            sim.stop()
        elif name == "run_up_to" and self.prog.get("kwcalls"):
            sim.run_up_to(stop_time=self.tv(cmd[1]))
        elif name == "run_up_to_incl" and self.prog.get("kwcalls"):
            sim.run_up_to_including(stop_time=self.tv(cmd[1]))
        elif name == "run_up_to":
            sim.run_up_to(self.tv(cmd[1]))
        elif name == "run_up_to_incl":
            sim.run_up_to_including(self.tv(cmd[1]))
        elif name == "end_replication":
            sim.end_replication()
        elif name == "cleanup":
            sim.cleanup()
        elif name == "initialize":
            rep = self.make_replication(cmd[1] if len(cmd) > 1 else None)
            if self.prog.get("kwcalls"):
                sim.initialize(model=self.model, replication=rep)
            else:
                sim.initialize(self.model, rep)
            self.tc_done = set()            # (only an initialize that was admitted)
            self.active_model = self.model
            self.subscribe()
        elif name == "initialize_failing":
            self.model.fail_construct = True
            rep = self.make_replication(cmd[1] if len(cmd) > 1 else None)
            try:
                sim.initialize(self.model, rep)
            finally:
                self.model.fail_construct = False
            self.subscribe()
        elif name == "initialize_b":
            # a second model object (same program) on the same simulator
            if self.model_b is None:
                self.model_b = ProgramModel(self.sim, self)
            rep = self.make_replication(cmd[1] if len(cmd) > 1 else None)
            sim.initialize(self.model_b, rep)
            self.tc_done = set()
            self.active_model = self.model_b
            self.subscribe()
        else:
            raise ValueError("unknown command %r" % (cmd,))

    def subscribe(self):
        ones = self.case.get("oneshot_listeners") or ()
        if self.case.get("no_listeners"):
            return                  # a plain script: nobody listens to the simulator at all
        late = self.case.get("late_tc")
        for name, et in SIM_EVENT_TYPES:
            if late and name == "TIME_CHANGED":
                # nobody listens for time changes when the run starts: the recorder
                # subscribes to them from inside a handler (see after_handler)
                continue
            if name in ones:
                # a one-shot subscriber registered BEFORE the recorder: it unsubscribes
                # itself from inside its first notification; the subscribers after it
                # must still get that notification
                self.sim.add_listener(et, OneShot(self.sim, et))
            self.sim.add_listener(et, self.collector)

    def do_cmd(self, cmd):
        """A command issued by the driver thread."""
        det = self.hist.det
        name = cmd[0]
        H = self.hist.H
        if name == "settle":
            det.settle()
            H.append(("quiet", self.cmd_index) + self.snapshot()
                     + (len(det.live_threads()),))
            bad = self.predicates()
            if bad:
                H.append(("predicate-mismatch", self.cmd_index, bad))
            return None
        if name == "poll":
            # the idiom of the tests: while sim.is_starting_or_running(): sleep
            n = 0
            self._eager(det, lambda: not self.sim.is_starting_or_running())
            while self.sim.is_starting_or_running() and n < 100000:
                detsim.coop_sleep(0.01)
                n += 1
            det.eager = None
            H.append(("polled", self.cmd_index, n))
            return None
        if name == "sleep":
            detsim.coop_sleep(cmd[1])
            return None
        if name == "poll_stopped":
            # a caller that waits until the simulator *reports* a stable state
            # and then issues its next command at once
            n = 0
            stable = ("STOPPED", "ENDED", "INITIALIZED", "NOT_INITIALIZED")
            self._eager(det, lambda: self.sim.run_state.name in stable)
            while self.sim.run_state.name not in stable and n < 3000:
                detsim.coop_sleep(0.001)
                n += 1
            det.eager = None
            H.append(("polled", self.cmd_index, n))
            return None
        if name == "end_replication_if_paused":
            # only inside the generated space: a paused replication
            s = self.snapshot()
            if s[0] == "STOPPED" and s[1] == "STARTED":
                return self.do_cmd(["end_replication"])
            return None
        if name == "drain":
            # start() until the replication has ended (bounded)
            for _ in range(cmd[1] if len(cmd) > 1 else 50):
                s = self.snapshot()
                if s[0] not in ("INITIALIZED", "STOPPED") or s[1] not in ("INITIALIZED", "STARTED") \
                        or s[2] > _num(self.sim.replication.end_sim_time):
                    break
                self.do_cmd(["start"])
                det.settle()
            return None
        i = self.cmd_index
        self.cmd_index += 1
        label = "%s#%d" % (name, i)
        lt = det.current
        prev = lt.cmd
        self.watch(det, lt)
        lt.cmd = label
        before = self.snapshot()
        self.cmd_steps[i] = [det.step, None]
        self.cmd_clock[i] = [det.clock, None, det.clock - det.jump_total, None]
        H.append(("cmd", i, name, "invoke", lt.id, before))
        if self.refill and hasattr(det.schedule, "refill"):
            det.schedule.refill()
        det.eager = None
        if name in ("start", "step", "run_up_to", "run_up_to_incl") and lt is det.driver:
            # (start() itself sleeps until the run thread has picked the command up)
            self._eager(det, lambda: self.sim.run_state.name in ("STOPPED", "ENDED"))
        try:
            self._call(cmd)
            out = "ok"
        except DSOLError:
            out = "DSOLError"
        except detsim.DetsimAbort:
            raise
        except BaseException as e:      # (a handler failure may derive from BaseException)
            out = "exc:" + type(e).__name__
        finally:
            self.watch(det, lt)
            lt.cmd = prev
        self.cmd_steps[i][1] = det.step
        self.cmd_clock[i][1] = det.clock
        self.cmd_clock[i][3] = det.clock - det.jump_total
        H.append(("cmd", i, name, "return", lt.id, out, self.snapshot()))
        return out

    def _eager(self, det, pred):
        """Fault 'eager poller': the polling caller is woken a few lines after
        the state it waits for is published and the publishing thread is stalled
        (sched['eager'] = [stall seconds, delay in lines]); replays follow the
        recorded decision instead."""
        sc = self.case.get("sched") or {}
        eg = sc.get("eager")
        if eg and sc.get("kind") != "replay":
            det.eager = [det.current, pred, eg[0], eg[1]]

    def do_cmd_from_callback(self, cmd, where, owner=None, idx=None):
        """A lifecycle command issued from a handler or a listener (runs on
        whatever thread executes the callback)."""
        det = self.hist.det
        H = self.hist.H
        self.fault("command_from_callback")
        i = self.cmd_index
        self.cmd_index += 1
        name = cmd[0]
        lt = det.current
        prev = lt.cmd
        self.watch(det, lt)
        lt.cmd = "%s#%d@%s" % (name, i, where)
        before = self.snapshot()
        self.cmd_steps[i] = [det.step, None]
        self.cmd_clock[i] = [det.clock, None, det.clock - det.jump_total, None]
        H.append(("cmd", i, name, "invoke", lt.id, before, where, prev))
        try:
            self._call(list(cmd))
            out = "ok"
        except DSOLError:
            out = "DSOLError"
        except detsim.DetsimAbort:
            raise
        except BaseException as e:      # (a handler failure may derive from BaseException)
            out = "exc:" + type(e).__name__
        finally:
            self.watch(det, lt)
            lt.cmd = prev
        self.cmd_steps[i][1] = det.step
        self.cmd_clock[i][1] = det.clock
        self.cmd_clock[i][3] = det.clock - det.jump_total
        H.append(("cmd", i, name, "return", lt.id, out, self.snapshot(),
                  where))
        return out

    def listener_hook(self, type_name, event=None):
        """Lifecycle commands issued from a listener of a chosen type: the
        plan maps type name -> [occurrence number, command]."""
        if type_name == "TIME_CHANGED" and self.prog.get("tc_listener") and event is not None:
            # a TIME_CHANGED subscriber that schedules at the announced time or
            # cancels an event (see RefDEVS._announce)
            t = _num(event.content)
            for idx, (T, a) in enumerate(self.prog["tc_listener"]):
                if idx not in self.tc_done and self.ref_time(T) == t:
                    self.tc_done.add(idx)
                    self.count("action-in-TIME_CHANGED-listener")
                    self.perform(self.active_model or self.model, "L", idx, a)
        plan = self.listener_cmds.get(type_name)
        if not plan:
            return
        k = self.listener_fired.get(type_name, 0) + 1
        self.listener_fired[type_name] = k
        for occ, cmd in plan:
            if occ == k:
                self.count("command-in-listener(%s)" % type_name)
                self.do_cmd_from_callback(cmd, "listener:" + type_name)

    # -- state watch -------------------------------------------------------
    def watch(self, det, lt):
        d = self.sim.__dict__
        try:
            cur = (d["_run_state"], d["_replication_state"])
        except KeyError:
            det.atomic += 1
            try:
                cur = (self.sim.run_state, self.sim.replication_state)
            finally:
                det.atomic -= 1
        if cur != self.last_state:
            old = self.last_state
            self.last_state = cur
            self.hist.H.append(("st", det.step, lt.id, lt.cmd,
                                old[0].name, old[1].name,
                                cur[0].name, cur[1].name))

    # -- the run -----------------------------------------------------------
    def make_schedule(self):
        sc = self.case.get("sched") or {"kind": "S0"}
        kind = sc["kind"]
        if kind == "S0":
            return detsim.S0()
        if kind == "replay":
            return detsim.SReplay(sc["decisions"])
        rng = common.rng_for(sc["seed"], "schedule")
        if kind == "pct":
            return detsim.SRandom(rng, sc["p"], sc["d"], sc.get("timer_prob", 0.6))
        if kind == "site":
            return detsim.SSite(rng, interesting_sites(), sc["q"],
                                sc.get("p", 0.0), sc["d"],
                                sc.get("timer_prob", 0.6))
        raise ValueError(kind)

    def run(self):
        install()
        case = self.case
        sc = case.get("sched") or {}
        SimEvent._SimEvent__event_counter = case.get("id_offset", 0)
        for cls in (SubEventA, SubEventB):
            if "_SimEvent__event_counter" in cls.__dict__:
                delattr(cls, "_SimEvent__event_counter")
        self.sim = self.make_simulator()
        strategy = case.get("strategy")
        if strategy is not None:
            if case.get("log_level") is not None:
                # the documented optional argument: override the strategy's log level
                self.sim.set_error_strategy(strategy, case["log_level"])
            else:
                self.sim.set_error_strategy(strategy)
        cls = SizedProgramModel if case.get("sized_model") else ProgramModel
        self.model = cls(self.sim, self)
        if self.prog.get("initial"):
            self.sim.add_initial_method(self.model, "init_hook")
        hooks = {}
        if self.listener_cmds:
            hooks = {n: self.listener_hook for n in self.listener_cmds}
        if self.prog.get("tc_listener"):
            hooks["TIME_CHANGED"] = self.listener_hook
        self.collector = Collector(self.hist, hooks)
        if case.get("late_tc"):
            self.hist.H.append(("tc_late_mode", case["late_tc"]))
        oversleep = None
        if sc.get("oversleep"):
            orng = common.rng_for(sc.get("seed", 0), "oversleep")
            fac = sc["oversleep"]

            def oversleep(dt, _r=orng, _f=fac):
                self.fault("oversleep")
                return dt * (1.0 + _r.random() * (_f - 1.0))
        det = detsim.Sim(self.make_schedule(),
                         step_cost=sc.get("step_cost_us", 0) * 1e-6,
                         max_steps=case.get("max_steps", 200000)
                         * (8 if sc.get("opcodes") else 1),   # (a step is a bytecode then)
                         oversleep=oversleep, watch=self.watch)
        if sc.get("opcodes"):
            # fault granularity: pre-emption between the bytecodes of simulator.py
            det.opcode_tags = {detsim.TARGETS[_simmod.__file__]}
        if sc.get("stall"):
            det.stall_rng = common.rng_for(sc.get("seed", 0), "stall")
            det.stall_prob = sc["stall"]
            if sc.get("stall_choices"):
                det.stall_choices = tuple(sc["stall_choices"])
        if isinstance(det.schedule, detsim.SReplay):
            det.replay_stalls = det.schedule.stalls
        if sc.get("clock_jumps"):
            det.clock_jumps = {int(k): v for k, v in sc["clock_jumps"].items()}
        self.last_state = (self.sim.run_state, self.sim.replication_state)
        self.hist.det = det
        self.det = det
        self.aborted = None
        detsim.begin(det)
        try:
            for cmd in case["commands"]:
                self.do_cmd(cmd)
                if det.aborted:
                    break
            if not det.aborted:
                self.finish()
        except detsim.DetsimAbort as e:
            self.aborted = str(e)
        finally:
            detsim.end(det)
        if det.aborted:
            self.aborted = det.aborted
        self.clean = (not self.aborted) and not det.live_threads()
        return self

    def finish(self):
        """After the script: settle, record the final state, then clean up
        and check that every run thread terminates."""
        det = self.det
        det.settle()
        self.final = self.snapshot()
        self.final_live = len(det.live_threads())
        self.hist.H.append(("final",) + self.final + (self.final_live,))
        try:
            self.sim.cleanup()
        except DSOLError:
            pass
        det.settle()
        self.after_cleanup_live = len(det.live_threads())
        self.hist.H.append(("cleaned", self.after_cleanup_live))

    # -- digest ------------------------------------------------------------
    def digest(self):
        det = self.det
        return common.digest([self.hist.H, det.ydigest, det.step,
                              det.decisions, repr(det.clock)])
