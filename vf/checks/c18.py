"""C18 — input parameters always hold a valid value, addressable by their
dotted key; rejected operations change nothing."""
from vf import common, shrink as shr, twothread

common.use_repo()
from pydsol.core.model import DSOLModel                     # noqa: E402
from pydsol.core.parameters import (InputParameterMap, InputParameterInt,   # noqa: E402
                                    InputParameterFloat, InputParameterStr,
                                    InputParameterBool, InputParameterQuantity,
                                    InputParameterSelectionList, InputParameterUnit)
from pydsol.core.simulator import DEVSSimulatorFloat         # noqa: E402
from pydsol.core.units import Length, Duration, Speed        # noqa: E402

PROPERTY = "C18"
LEVEL = "exploration"
BUDGET = {"quick": 60000, "thorough": 6000000}
WALL_CAP = {"quick": 150, "thorough": 3000}
CHUNK = 1000
RULE = ("one case = a history of up to 60 operations on a parameter tree (depth <= 4, "
        "<= 25 nodes) of all eight parameter classes rooted at a model's input "
        "parameter map: construct a child (valid / invalid default / duplicate key / "
        "via parent= or add()), set_value (valid, wrong type, out of bounds, not an "
        "option, wrong quantity type, on read-only), get and remove by dotted key "
        "relative to any enclosing map, model.set_parameter / get_parameter / "
        "add_parameter, an attached parameter offered to another map that holds that "
        "key (refused). Oracle: a "
        "parameter-tree reference model; after every operation every node's value "
        "satisfies its predicate, default values never change, a rejected operation "
        "leaves value and tree unchanged (a failed constructor must not have registered "
        "the child), children are listed by display priority with ties in insertion "
        "order, get(key) returns the identical object. non-trivial = at least one "
        "rejected set_value or failed construction and at least one accepted set_value "
        "in a tree of >= 3 nodes; distinct = digest of the history")
COMPONENTS = {"real": ["pydsol.core.parameters (all 8 classes)", "pydsol.core.model.DSOLModel"],
              "stub": ["threading.Thread.start / thread scheduling (baton scheduler, two-thread layer only)"]}
ASSUMPTIONS = ["sizes are swarm-varied: about 1 % of the histories have 200 or 500 operations on trees of up to 120 nodes",
               "weak fit for the single-caller layer (history + reference model, no scheduler or clock); the two-thread layer (8 % of the cases) judges only the state after both threads have finished",
               "bool values are not offered to int/float parameters (bool is an int subclass)",
               "removing an absent key is not generated (docstring and code disagree)"]

QTYPES = {"Length": Length, "Duration": Duration, "Speed": Speed}
KINDS = ["int", "float", "str", "bool", "quantity", "selection", "unit", "map"]


class _Model(DSOLModel):
    def construct_model(self):
        pass


def gen_spec(rng, kind):
    if kind == "int":
        lo = rng.choice([0, -10, 1])
        hi = lo + rng.choice([1, 5, 100])
        if rng.random() < 0.15:
            # bounds beyond 2**53 are exact ints but not exact floats
            hi = rng.choice([2 ** 63 - 1, 2 ** 64 - 1, 2 ** 53 + 1, 10 ** 18 + 7])
            lo = rng.choice([0, -hi])
            return {"min": lo, "max": hi, "default": rng.choice([lo, hi, 0])}
        return {"min": lo, "max": hi, "default": rng.randint(lo, hi)}
    if kind == "float":
        lo = rng.choice([0.0, -1.5, 10])
        hi = lo + rng.choice([0.5, 1, 100.0])
        return {"min": lo, "max": hi, "default": rng.choice([lo, hi, (lo + hi) / 2])}
    if kind == "str":
        return {"default": rng.choice(["", "a", "hello"])}
    if kind == "bool":
        return {"default": rng.random() < 0.5}
    if kind == "quantity":
        q = rng.choice(sorted(QTYPES))
        unit = {"Length": "km", "Duration": "min", "Speed": "km/h"}[q]
        return {"q": q, "unit": unit, "min": 0.0, "max": rng.choice([1e5, 1e6]),
                "default": rng.choice([0.0, 1.0, 1.5])}
    if kind == "selection":
        opts = rng.sample(["red", "green", "blue", "x", ""], rng.randint(1, 4))
        return {"options": opts, "default": rng.choice(opts)}
    if kind == "unit":
        q = rng.choice(sorted(QTYPES))
        return {"q": q, "default": {"Length": "m", "Duration": "s", "Speed": "m/s"}[q]}
    return {}


def invalid_default(rng, kind, spec):
    s = dict(spec)
    if kind == "int":
        s["default"] = rng.choice([spec["max"] + 1, spec["min"] - 1, 1.5, "3"])
    elif kind == "float":
        s["default"] = rng.choice([spec["max"] + 1.0, spec["min"] - 0.5, "x", None])
    elif kind == "str":
        s["default"] = rng.choice([1, None, 2.5])
    elif kind == "bool":
        s["default"] = rng.choice([1, "True", None])
    elif kind == "quantity":
        s["default"] = rng.choice([-1.0, spec["max"] * 1e3 + 1e9])
    elif kind == "selection":
        s["default"] = "not-an-option"
    elif kind == "unit":
        s["default"] = "furlong-per-fortnight"
    else:
        return None
    return s


def init_worker():
    import pydsol.core.parameters as _parmod
    twothread.install(_parmod)


def gen_threaded(rng, seed):
    """Two caller threads: one constructs bounded parameters under a shared map,
    the other looks each key up and tries to set an illegal value as soon as the
    parameter is retrievable (seeded pre-emption inside parameters.py).  What
    the second thread gets during the overlap is not judged; afterwards every
    value must satisfy its declaration."""
    params = []
    for k in range(rng.randint(1, 3)):
        kind = rng.choice(["int", "float", "quantity"])
        params.append(["t%d" % k, kind, gen_spec(rng, kind)])
    return {"threaded": True, "ops": [], "params": params, "polls": rng.choice([5, 20, 60]),
            "how": [rng.choice(["out_of_bounds", "out_of_bounds", "other", "wrong_type"])
                    for _ in params],
            "sched": {"seed": seed, "p": rng.choice([0.05, 0.15, 0.3]),
                      "d": rng.choice([4, 8, 20, 40])}}


def run_threaded(case):
    info = {"rejected": 0, "accepted_sets": 0, "nodes": 0, "ops": 0}
    sim = DEVSSimulatorFloat("sim")
    model = _Model(sim)
    rootobj = model.input_parameters
    objs = {}

    def writer():
        for key, kind, spec in case["params"]:
            objs[key] = build(kind, spec, key, 1, False, rootobj)

    def reader():
        for _ in range(case["polls"]):
            for (key, kind, spec), how in zip(case["params"], case["how"]):
                v, _ok = choose_value(kind, spec, how, 0.25)
                try:
                    rootobj.get(key).set_value(v)
                except Exception:       # not there yet / refused / half-built: not judged
                    pass

    init_worker()          # (idempotent; the shrinker evaluates in forks of the parent)
    det, errors = twothread.run_two(case["sched"], writer, reader)
    info["switches"] = det.n_switch
    info["schedule"] = [det.ydigest, det.step, [list(d) for d in det.decisions]]
    if det.aborted:
        return ("harness", "two-thread run aborted: %s" % det.aborted), info
    for who, name, msg in errors:
        if who == "writer":
            return ("valid-construction-rejected", "constructing parameters while another "
                    "thread sets values raised %s: %s" % (name, msg)), info
    for key, kind, spec in case["params"]:
        info["nodes"] += 1
        o = objs.get(key)
        if o is None or rootobj.get(key) is not o:
            return ("lookup", "parameter %r constructed by one thread is not retrievable "
                    "afterwards" % key), info
        if not valid(kind, spec, o.value):
            return ("invalid-value", "one thread constructed %s parameter %r (%s) while another "
                    "tried to set illegal values through the map (%d thread switches inside "
                    "parameters.py); afterwards it holds %r, which violates its declaration"
                    % (kind, key, spec, det.n_switch, o.value)), info
    return None, info


def generate(seed, tier, idx=0):
    rng = common.rng_for(seed, "case")
    if rng.random() < 0.08:
        return gen_threaded(rng, seed)
    n = rng.choice([3, 5, 8, 12, 20, 30, 45, 60])
    big = rng.random() < 0.01
    if big:
        n = rng.choice([200, 500])
    ops = []
    maps = [""]              # dotted paths of maps, relative to the root
    params = []              # (path, kind, spec)
    counter = 0
    for _ in range(n):
        r = rng.random()
        if r < 0.30 and len(params) + len(maps) < (120 if big else 25):
            parent = rng.choice(maps)
            depth = parent.count(".") + (1 if parent else 0)
            kind = rng.choice(KINDS if depth < 3 else KINDS[:-1])
            counter += 1
            key = "k%d" % counter
            if rng.random() < 0.08:
                # legal keys with leading / trailing / inner blanks
                key = rng.choice(["k%d ", " k%d", "k %d", "k%d\t"]) % counter
            if rng.random() < 0.1 and (params or len(maps) > 1):
                # duplicate key inside that parent
                sib = [p for p, k, s in params if p.rpartition(".")[0] == parent] + \
                      [m for m in maps if m and m.rpartition(".")[0] == parent]
                if sib:
                    key = rng.choice(sib).rpartition(".")[2]
            elif rng.random() < 0.12 and params:
                # the key of a parameter that lives in another map (legal there)
                key = rng.choice(params)[0].rpartition(".")[2]
            spec = gen_spec(rng, kind)
            bad = None
            if rng.random() < 0.15:
                bad = invalid_default(rng, kind, spec)
            op = ["new", parent, key, kind, bad or spec,
                  rng.choice([1, 1, 2, 3, 0.5, 10]), rng.random() < 0.15,
                  rng.choice(["parent", "parent", "add"]), bad is not None]
            ops.append(op)
            path = (parent + "." if parent else "") + key
            exists = any(p == path for p, k, s in params) or path in maps
            if bad is None and not exists:
                if kind == "map":
                    maps.append(path)
                else:
                    params.append((path, kind, spec))
        elif r < 0.70 and params:
            path, kind, spec = rng.choice(params)
            how = rng.choice(["valid", "valid", "valid", "wrong_type", "out_of_bounds",
                              "other"])
            ops.append(["set", path, how, rng.random(),
                        rng.choice(["direct", "direct", "model"])])
        elif r < 0.80 and (params or len(maps) > 1):
            cand = [p for p, k, s in params] + maps[1:]
            path = rng.choice(cand)
            # address it relative to one of its enclosing maps
            parts = path.split(".")
            cut = rng.randint(0, len(parts) - 1)
            ops.append(["get", ".".join(parts[:cut]), ".".join(parts[cut:])])
        elif r < 0.88 and (params or len(maps) > 1):
            cand = [p for p, k, s in params] + maps[1:]
            path = rng.choice(cand)
            parts = path.split(".")
            cut = rng.randint(0, len(parts) - 1)
            ops.append(["remove", ".".join(parts[:cut]), ".".join(parts[cut:])])
            params = [x for x in params if not (x[0] == path or x[0].startswith(path + "."))]
            maps = [m for m in maps if not (m == path or m.startswith(path + "."))]
        elif r < 0.905 and len(maps) > 1 and (params or len(maps) > 2):
            # a parameter or a whole sub-map (with its children) is taken out of its
            # map and added to another one: every extended key below it changes
            cand = [p for p, k, s in params] + maps[1:]
            path = rng.choice(cand)
            par, _, key = path.rpartition(".")
            targets = [m for m in maps if m != par and m != path
                       and not m.startswith(path + ".")]
            taken = set(p for p, _, _ in params) | set(maps)
            targets = [m for m in targets if ((m + "." if m else "") + key) not in taken]
            if targets:
                t = rng.choice(targets)
                ops.append(["move", path, t])
                new = (t + "." if t else "") + key

                def mv(x):
                    return new + x[len(path):] if (x == path or x.startswith(path + ".")) else x
                params = [(mv(p), k, s) for p, k, s in params]
                maps = [mv(m) for m in maps]
            else:
                ops.append(["check"])
        elif r < 0.93 and params and len(maps) > 1:
            # an attached parameter offered to another map that already holds a
            # different parameter with that key: refused, nothing may change
            pairs = []
            for path, kind, spec in params:
                par, _, key = path.rpartition(".")
                for m in maps:
                    if m != par and any(p2 == (m + "." if m else "") + key
                                        for p2, _, _ in params):
                        pairs.append((path, m))
            if pairs:
                path, m = rng.choice(pairs)
                ops.append(["readd", path, m])
            else:
                ops.append(["check"])
        else:
            ops.append(["check"])
    return {"ops": ops}


# ---------------------------------------------------------------------------
# reference tree

class Node:
    def __init__(self, key, kind, spec, prio, read_only):
        self.key, self.kind, self.spec = key, kind, spec
        self.prio, self.read_only = float(prio), read_only
        self.children = []          # ordered
        self.obj = None
        self.value = None
        self.default = None

    def find(self, path):
        if not path:
            return self
        head, _, rest = path.partition(".")
        for c in self.children:
            if c.key == head:
                return c.find(rest) if rest else c
        return None

    def add(self, node):
        self.children.append(node)
        self.children.sort(key=lambda c: c.prio)     # stable: ties by insertion


def make_value(kind, spec, v):
    if kind == "quantity":
        return QTYPES[spec["q"]](v, spec["unit"])
    return v


def build(kind, spec, key, prio, read_only, parent_obj):
    kw = dict(parent=parent_obj, read_only=read_only)
    name = "name " + key
    if kind == "int":
        return InputParameterInt(key, name, spec["default"], prio,
                                 min_value=spec["min"], max_value=spec["max"], **kw)
    if kind == "float":
        return InputParameterFloat(key, name, spec["default"], prio,
                                   min_value=spec["min"], max_value=spec["max"], **kw)
    if kind == "str":
        return InputParameterStr(key, name, spec["default"], prio, **kw)
    if kind == "bool":
        return InputParameterBool(key, name, spec["default"], prio, **kw)
    if kind == "quantity":
        return InputParameterQuantity(key, name, make_value(kind, spec, spec["default"]), prio,
                                      min_si=spec["min"], max_si=spec["max"], **kw)
    if kind == "selection":
        return InputParameterSelectionList(key, name, list(spec["options"]),
                                           spec["default"], prio, **kw)
    if kind == "unit":
        return InputParameterUnit(key, name, QTYPES[spec["q"]], spec["default"], prio, **kw)
    return InputParameterMap(key, name, prio, parent=parent_obj)


def valid(kind, spec, v):
    if kind == "int":
        return isinstance(v, int) and not isinstance(v, bool) and spec["min"] <= v <= spec["max"]
    if kind == "float":
        return isinstance(v, (int, float)) and not isinstance(v, bool) \
            and spec["min"] <= v <= spec["max"]
    if kind == "str":
        return isinstance(v, str)
    if kind == "bool":
        return isinstance(v, bool)
    if kind == "quantity":
        return isinstance(v, QTYPES[spec["q"]]) and spec["min"] <= v.si <= spec["max"]
    if kind == "selection":
        return isinstance(v, str) and v in spec["options"]
    if kind == "unit":
        return isinstance(v, str) and v in QTYPES[spec["q"]]._units
    return True


class Int64:
    """An integer-like number that is registered with numbers.Integral but is not
    an int (what numpy.int64 is): not a legal value for an int parameter."""

    def __init__(self, v):
        self.v = int(v)

    def __int__(self):
        return self.v

    __index__ = __int__

    def __eq__(self, o):
        return self.v == o

    def __lt__(self, o):
        return self.v < o

    def __le__(self, o):
        return self.v <= o

    def __gt__(self, o):
        return self.v > o

    def __ge__(self, o):
        return self.v >= o

    def __hash__(self):
        return hash(self.v)

    def __repr__(self):
        return "Int64(%d)" % self.v


import numbers as _numbers     # noqa: E402
_numbers.Integral.register(Int64)


def choose_value(kind, spec, how, x):
    """(value, expected to be accepted)"""
    if how == "other" and kind == "int" and x < 0.5:
        # in bounds, integral, but not an int
        return Int64(spec["min"] + int(x * 2 * (spec["max"] - spec["min"]))), False
    if how == "valid":
        if kind == "int":
            return spec["min"] + int(x * (spec["max"] - spec["min"] + 1)) % (spec["max"] - spec["min"] + 1), True
        if kind == "float":
            return spec["min"] + x * (spec["max"] - spec["min"]), True
        if kind == "str":
            return "v%d" % int(x * 100), True
        if kind == "bool":
            return x < 0.5, True
        if kind == "quantity":
            return make_value(kind, spec, round(x, 3)), True
        if kind == "selection":
            return spec["options"][int(x * len(spec["options"])) % len(spec["options"])], True
        if kind == "unit":
            units = sorted(QTYPES[spec["q"]]._units)
            return units[int(x * len(units)) % len(units)], True
    if how == "wrong_type":
        v = {"int": 1.5, "float": "1.0", "str": 5, "bool": 1, "quantity": 3.0,
             "selection": 7, "unit": None}[kind]
        return v, False
    if how == "out_of_bounds":
        if kind in ("int", "float"):
            return (spec["max"] + 1) if x < 0.5 else (spec["min"] - 1), False
        if kind == "quantity":
            return make_value(kind, spec, -5.0 if x < 0.5 else spec["max"] * 1e4 + 1e9), False
        if kind in ("selection", "unit"):
            return "nope", False
        if kind == "str":
            return None, False
        return "yes", False
    # other: wrong quantity type / NaN / list
    if kind == "quantity":
        other = [q for q in sorted(QTYPES) if q != spec["q"]][0]
        return QTYPES[other](1.0), False
    if kind == "float":
        return float("nan"), False
    if kind == "int":
        return [1], False
    return {"str": 1.0, "bool": "False", "selection": None, "unit": 3}[kind], False


def snapshot(node):
    """(key, kind, value repr, default repr, [children...]) of the real tree
    under the reference node's object."""
    obj = node.obj
    if node.kind == "map":
        return (obj.key, "map", [snapshot_obj(o) for o in obj.value.values()])
    return snapshot_obj(obj)


def snapshot_obj(o):
    if isinstance(o, InputParameterMap):
        return (o.key, "map", [snapshot_obj(c) for c in o.value.values()])
    return (o.key, type(o).__name__, repr(o.value), repr(o.default_value), id(o))


def compare_tree(ref, obj, path="root"):
    """Structural equality of the real map with the reference node."""
    real = list(obj.value.values())
    if [c.key for c in ref.children] != [o.key for o in real]:
        return "children of %s are listed as %s, expected %s (display priorities %s)" \
            % (path, [o.key for o in real], [c.key for c in ref.children],
               [c.prio for c in ref.children])
    for c, o in zip(ref.children, real):
        if o is not c.obj:
            return "child %s.%s is not the object that was added" % (path, c.key)
        if c.kind == "map":
            m = compare_tree(c, o, path + "." + c.key)
            if m:
                return m
        else:
            if not valid(c.kind, c.spec, o.value):
                return "parameter %s.%s (%s) holds the invalid value %r" \
                    % (path, c.key, c.kind, o.value)
            if repr(o.value) != repr(c.value):
                return "parameter %s.%s holds %r, the last accepted value is %r" \
                    % (path, c.key, o.value, c.value)
            if repr(o.default_value) != repr(c.default):
                return "default value of %s.%s changed from %r to %r" \
                    % (path, c.key, c.default, o.default_value)
        if o.extended_key() != path + "." + c.key:
            return "extended_key() of %s.%s is %r" % (path, c.key, o.extended_key())
    return None


def run(case):
    info = {"rejected": 0, "accepted_sets": 0, "nodes": 0, "ops": 0}
    sim = DEVSSimulatorFloat("sim")
    model = _Model(sim)
    rootobj = model.input_parameters
    root = Node("root", "map", {}, 1, True)
    root.obj = rootobj
    for i, op in enumerate(case["ops"]):
        info["ops"] += 1
        name = op[0]
        if name == "new":
            _, ppath, key, kind, spec, prio, ro, via, is_bad = op
            parent = root.find(ppath)
            if parent is None or parent.kind != "map":
                continue
            dup = any(c.key == key for c in parent.children)
            before = snapshot(root)
            try:
                if via == "parent" or is_bad:
                    obj = build(kind, spec, key, prio, ro, parent.obj)
                else:
                    obj = build(kind, spec, key, prio, ro, None)
                    if parent is root and i % 2 == 0:
                        model.add_parameter(obj)       # the model-level way to add
                    else:
                        parent.obj.add(obj)
                ok = True
            except (TypeError, ValueError):
                ok = False
            except Exception as e:
                return ("unexpected-exception", "op #%d %s raised %s: %s"
                        % (i, op[:4], type(e).__name__, e)), info
            if is_bad or dup:
                if ok:
                    return ("invalid-construction-accepted", "op #%d: constructing %s "
                            "parameter %r with %s was accepted"
                            % (i, kind, key, "a duplicate key" if dup else
                               "invalid default %r" % (spec.get("default"),))), info
                info["rejected"] += 1
                if snapshot(root) != before:
                    return ("failed-construction-changed-tree", "op #%d: constructing %s "
                            "parameter %r under %r raised (%s) but changed the tree: "
                            "children of the parent are now %s"
                            % (i, kind, key, ppath or "root",
                               "duplicate key" if dup else "invalid default %r" % (spec.get("default"),),
                               list(parent.obj.value.keys()))), info
                continue
            if not ok:
                return ("valid-construction-rejected", "op #%d: constructing %s parameter "
                        "%r with %s was rejected" % (i, kind, key, spec)), info
            node = Node(key, kind, spec, prio, ro)
            node.obj = obj
            if kind != "map":
                node.value = obj.value
                node.default = obj.default_value
                if not valid(kind, spec, obj.value):
                    return ("invalid-value", "new parameter %r holds %r" % (key, obj.value)), info
            parent.add(node)
            info["nodes"] += 1
        elif name == "set":
            _, path, how, x, via = op
            node = root.find(path)
            if node is None or node.kind == "map":
                continue
            v, acceptable = choose_value(node.kind, node.spec, how, x)
            should = acceptable and not node.read_only
            try:
                if via == "model":
                    model.set_parameter(path, v)
                else:
                    node.obj.set_value(v)
                ok = True
            except (TypeError, ValueError):
                ok = False
            except Exception as e:
                return ("unexpected-exception", "op #%d set %s=%r via %s raised %s: %s"
                        % (i, path, v, via, type(e).__name__, e)), info
            if ok and not should:
                return ("invalid-set-accepted", "op #%d: set_value(%r) on %s parameter %s "
                        "(%s%s) was accepted" % (i, v, node.kind, path, node.spec,
                                                 ", read-only" if node.read_only else "")), info
            if not ok and should:
                return ("valid-set-rejected", "op #%d: set_value(%r) on %s parameter %s "
                        "(%s) was rejected" % (i, v, node.kind, path, node.spec)), info
            if ok:
                node.value = v
                info["accepted_sets"] += 1
                got = model.get_parameter(path) if via == "model" else node.obj.value
                if repr(got) != repr(v):
                    return ("round-trip", "after setting %s to %r %s returns %r"
                            % (path, v, "model.get_parameter" if via == "model" else "value",
                               got)), info
            else:
                info["rejected"] += 1
        elif name == "get":
            _, base, rel = op
            b = root.find(base)
            if b is None or b.kind != "map":
                continue
            target = b.find(rel)
            if target is None:
                continue
            try:
                got = b.obj.get(rel)
            except Exception as e:
                return ("lookup", "op #%d: get(%r) on map %r raised %s"
                        % (i, rel, base or "root", type(e).__name__)), info
            if got is not target.obj:
                return ("lookup", "op #%d: get(%r) on map %r returned %r, not the "
                        "parameter stored there" % (i, rel, base or "root", got)), info
        elif name == "remove":
            _, base, rel = op
            b = root.find(base)
            if b is None or b.kind != "map":
                continue
            target = b.find(rel)
            if target is None:
                continue
            try:
                got = b.obj.remove(rel)
            except Exception as e:
                return ("remove", "op #%d: remove(%r) on map %r raised %s"
                        % (i, rel, base or "root", type(e).__name__)), info
            if got is not target.obj:
                return ("remove", "op #%d: remove(%r) returned %r" % (i, rel, got)), info
            owner = b.find(rel.rpartition(".")[0]) if "." in rel else b
            owner.children = [c for c in owner.children if c is not target]
        elif name == "move":
            _, path, tpath = op
            node = root.find(path)
            target = root.find(tpath)
            parent = root.find(path.rpartition(".")[0])
            if node is None or target is None or parent is None or target.kind != "map" \
                    or node is root or target is parent or target is node \
                    or any(c.key == node.key for c in target.children):
                continue
            t = target                       # not into its own sub-tree
            inside = False
            stack = [node]
            while stack:
                x = stack.pop()
                if x is target:
                    inside = True
                stack.extend(x.children)
            if inside:
                continue
            try:
                got = parent.obj.remove(node.key)
                target.obj.add(node.obj)
            except Exception as e:
                return ("remove", "op #%d: moving %s to map %r (remove, then add) raised %s: %s"
                        % (i, path, tpath or "root", type(e).__name__, e)), info
            if got is not node.obj:
                return ("remove", "op #%d: remove(%r) returned %r" % (i, node.key, got)), info
            parent.children = [c for c in parent.children if c is not node]
            target.add(node)
            info["moves"] = info.get("moves", 0) + 1
        elif name == "readd":
            _, path, mpath = op
            node = root.find(path)
            target = root.find(mpath)
            if node is None or target is None or target.kind != "map" or node.kind == "map":
                continue
            other = next((c for c in target.children if c.key == node.key), None)
            if other is None or other is node:
                continue
            try:
                target.obj.add(node.obj)
                return ("invalid-construction-accepted", "op #%d: map %r accepted a second "
                        "parameter with the key %r" % (i, mpath or "root", node.key)), info
            except (TypeError, ValueError):
                info["rejected"] += 1
            try:
                got = rootobj.get(path)
            except Exception as e:
                return ("lookup", "op #%d: after map %r refused parameter %s (duplicate key) "
                        "get(%r) on the root raised %s" % (i, mpath or "root", path, path,
                                                           type(e).__name__)), info
            if got is not node.obj or node.obj.extended_key() != "root." + path:
                return ("lookup", "op #%d: after map %r refused parameter %s (duplicate key) "
                        "the parameter reports the extended key %r"
                        % (i, mpath or "root", path, node.obj.extended_key())), info
        m = compare_tree(root, rootobj)
        if m:
            return ("tree-state", "after op #%d %s: %s" % (i, op[:4], m)), info
    return None, info


def execute(case):
    f, info = run_threaded(case) if case.get("threaded") else run(case)
    res = {"clean": f is None or f[0] != "harness",
           "digest": common.digest([case, f and f[0], info.get("schedule")]),
           "counters": {"ops": info["ops"], "fault:rejected_input": info["rejected"],
                        "layer:two_threads": 1 if case.get("threaded") else 0,
                        "fault:preempt": info.get("switches", 0),
                        "accepted_sets": info["accepted_sets"], "nodes": info["nodes"]},
           "nontrivial": info["rejected"] >= 1 and info["accepted_sets"] >= 1
           and info["nodes"] >= 3,
           "case_digest": common.digest8(case)}
    if f:
        res["status"] = "harness" if f[0] == "harness" else "violation"
        res["check_id"], res["message"] = f
    else:
        res["status"] = "ok"
    return res


def case_size(case):
    return {"ops": len(case["ops"])}


def shrink(case, fails):
    if case.get("threaded"):
        params = shr.one_by_one(list(zip(case["params"], case["how"])),
                                lambda ph: len(ph) > 0 and fails(dict(
                                    case, params=[p for p, h in ph], how=[h for p, h in ph])))
        return dict(case, params=[p for p, h in params], how=[h for p, h in params])
    ops = shr.ddmin(case["ops"], lambda o: fails(dict(case, ops=o)))
    return dict(case, ops=ops)
