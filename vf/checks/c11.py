"""C11 — simulation statistics honour warm-up and replication end and
publish true values."""
from vf import common, program, simrun, devscommon, statsext, shrink as shr
from vf.models.refdevs import OK

PROPERTY = "C11"
LEVEL = "exploration"
BUDGET = {"quick": 24000, "thorough": 3000000}
WALL_CAP = {"quick": 150, "thorough": 3000}
CHUNK = 200
RULE = ("one case = a generated model program whose handlers observe into "
        "SimCounter / SimTally / SimWeightedTally / SimPersistent objects created "
        "in construct_model (by direct register and by data events fired through a "
        "producer the statistic listens to), with observation times before / "
        "exactly at / after the warm-up instant and at the end, priorities below "
        "and at MAX at the warm-up instant, warm-up in {0, mid, = end, > end}, "
        "float and int clocks, optionally interrupted by steps, bounded runs and "
        "pauses, optionally with a probe listener on every statistics event; at "
        "END_REPLICATION every getter is compared bit for bit with the ordinary "
        "statistic fed the observations the reference places after the warm-up. "
        "non-trivial = at least one observation before and one at/after the "
        "warm-up event were made and the replication ended; distinct = digest of "
        "(program, statistics spec, commands)")
COMPONENTS = {
    "real": ["pydsol.core.statistics (Sim*, EventBased*, Tally, WeightedTally, TimestampWeightedTally, Counter)",
             "pydsol.core.simulator (warm-up event, END_REPLICATION, run thread)",
             "pydsol.core.pubsub", "pydsol.core.model (output statistics map)"],
    "stub": ["threading.Event/Lock (cooperative)", "time.time/sleep (virtual clock)",
             "stdout/stderr/logging (sunk)"]}
ASSUMPTIONS = ["Duration clocks are not used (statistics API documents float timestamps)",
               "values on a dyadic grid; comparison is same-algorithm differential, hence bit-identical"]
KINDS = ["counter", "tally", "wtally", "persistent"]


def init_worker():
    simrun.install()


def generate(seed, tier, idx=0):
    rng = common.rng_for(seed, "case")
    clock = rng.choice(["float", "float", "int"])
    length = rng.choice([4, 6, 8, 10])
    warm = rng.choice([0, 1, 2, length // 2, length, length + 2, 0.5, 1.5])
    start = rng.choice([0, 0, 1, 10])
    if clock == "int":
        warm = int(warm)
        rep = [start, warm, length]
    else:
        rep = [float(start), float(warm), float(length)]
    prog = program.gen_program(rng, clock=clock, rep=rep,
                               n_events=rng.choice([3, 4, 6, 8, 10, 14, 20]),
                               p_cancel=0.05, p_abs=0.3)
    stats = [{"kind": rng.choice(KINDS), "via": rng.choice(["direct", "event", "event2", "event_ctor"])}
             for _ in range(rng.randint(1, 4))]
    # make sure something lands exactly at the warm-up instant sometimes
    if rng.random() < 0.5 and prog["events"]:
        eid = rng.choice(program.event_ids(prog))
        for al in [prog["roots"]] + list(prog["events"].values()):
            for a in al:
                if program.child_of(a) == int(eid) and a[0] == "abs":
                    a[1] = (start + warm) if clock != "int" else int(start + warm)
    lists = [prog["roots"]] + [prog["events"][e] for e in program.event_ids(prog)]
    for al in lists:
        for _ in range(rng.choice([0, 1, 1, 2, 3])):
            i = rng.randrange(len(stats))
            v = rng.choice([0, 1, 2, 3, 5, -1, 0.5, 2.5, 7, 1, 1])
            w = rng.choice([0, 0.5, 1, 1, 2])
            al.insert(rng.randint(0, len(al)), ["obs", i, v, w])
    case = {"program": prog, "strategy": 3, "stats": stats,
            "probe": rng.random() < 0.5, "sized_model": rng.random() < 0.15}
    if rng.random() < 0.2:
        case["falsy_producer"] = True     # the data producer is an (empty) container
    if rng.random() < 0.2:
        prog["warmup_obs"] = [[rng.randrange(len(stats)), rng.choice([1, 2, 5, 0.5]),
                               rng.choice([0.5, 1, 2])] for _ in range(rng.randint(1, 2))]
    if rng.random() < 0.15:
        prog["init_obs"] = [[rng.randrange(len(stats)), rng.choice([1, 2, 5, 0.5]),
                             rng.choice([0.5, 1, 2])]]
    if case["probe"] and rng.random() < 0.3 and not prog.get("init_obs"):
        # a subscriber that changes the statistic from inside notify (batch monitor
        # resetting it, capacity guard registering a correction): what is published
        # afterwards must still equal the query methods at that moment.  Such a
        # statistic is left out of the end-value comparison.
        sp = rng.choice(stats)
        names = sorted(statsext.PUBLISHED[sp["kind"]]) + ["OBSERVATION_ADDED_EVENT"]
        sp["react"] = [rng.choice(names), rng.randint(1, 4),
                       rng.choice(["initialize", "register", "register"])]
    n_ev = len(prog["events"])
    if rng.random() < 0.25:
        case["pause_at"] = sorted(set(rng.randint(1, n_ev) for _ in range(rng.choice([1, 2]))))
    ref = devscommon.make_ref(case)
    cmds = [["initialize"], ["settle"]]
    ref.initialize()
    if rng.random() < 0.4:
        for _ in range(rng.randint(1, 3)):
            if ref.run_state == "ENDED" or not ref.can_start():
                break
            if rng.random() < 0.5 and not ref.step_at_boundary():
                ref.step()
                cmds += [["step"], ["settle"]]
            else:
                times = [t for t in ref.pending_times() if ref.clock <= t < ref.end]
                if not times:
                    break
                t = rng.choice(times)
                ref.run(t, True)
                cmds += [["run_up_to_incl", t], ["settle"]]
    guard = 0
    while ref.run_state != "ENDED" and guard < 10:
        if ref.run(ref.end, True) != OK:
            break
        cmds += [["start"], ["settle"]]
        guard += 1
    case["commands"] = cmds
    if rng.random() < 0.8:
        case["sched"] = {"kind": "S0"}
    else:
        case["sched"] = {"kind": rng.choice(["pct", "site"]), "seed": seed, "p": 0.01,
                         "q": 0.15, "d": rng.choice([1, 2]),
                         "step_cost_us": rng.choice([0, 10])}
    return case


def execute(case):
    ext = statsext.StatsExt(case)
    r = simrun.Runner(case, ext=ext).run()
    findings, info = devscommon.evaluate_sequential(case, r)
    ref = info.get("ref")
    # C11 only owns statistics findings; a diverging execution makes the
    # comparison meaningless and is reported as such
    base = [f for f in findings if f[0] in ("no-quiescence", "harness")]
    diverged = [f for f in findings if f[0] not in ("no-quiescence", "harness")]
    findings = list(base)
    cnt = {}
    nontrivial = False
    if ext.errors:
        findings.append(("observation-raised", ext.errors[0]))
    if ext.mismatches:
        findings.append(("published-value", ext.mismatches[0]))
    if ref is not None and not findings and not diverged and not info.get("invalid") \
            and r.final[:2] == ("ENDED", "ENDED"):
        model = r.model
        end = ref.end
        before = sum(1 for t, e in ref.trace if e == "W")
        for i, sp in enumerate(case["stats"]):
            st = model.stats[i]
            if sp.get("react"):
                continue
            obs = [(v, w, t) for (k, v, w, t) in ref.obs if k == i]
            sh = statsext.shadow(sp["kind"], obs, end)
            got = statsext.read_all(st, sp["kind"])
            exp = statsext.read_all(sh, sp["kind"])
            if got != exp:
                diff = {k: (got[k], exp[k]) for k in got if got[k] != exp.get(k)}
                findings.append(("statistic-differs",
                                 "statistic #%d (%s, %s) at END_REPLICATION differs from "
                                 "the ordinary statistic fed the %d observations after "
                                 "warm-up %s: {getter: (simulation statistic, ordinary)} "
                                 "= %s" % (i, sp["kind"], sp["via"], len(obs),
                                           [(o[0], o[2]) for o in obs][:6], diff)))
                break
            if sp["kind"] == "persistent" and st.isactive():
                findings.append(("persistent-not-closed", "SimPersistent #%d is still "
                                 "active after END_REPLICATION" % i))
                break
            try:
                same = model.get_output_statistic("k%d" % i) is st
            except Exception as e:
                same = False
            if not same:
                findings.append(("output-statistic-lookup",
                                 "model.get_output_statistic('k%d') does not return the "
                                 "statistic created in construct_model" % i))
                break
        n_after = len(ref.obs)
        nontrivial = ext.obs_count > n_after > 0 and before > 0
        cnt["probe:observations_total"] = ext.obs_count
        cnt["probe:observations_after_warmup"] = n_after
        cnt["probe:warmup_reached"] = before
    elif diverged and not findings:
        findings.append(("execution-diverged", "statistics not compared: %s: %s"
                         % diverged[0]))
    cnt["probe:published_values_checked"] = ext.published
    for sp in case["stats"]:
        cnt["stat:%s/%s" % (sp["kind"], sp["via"])] = cnt.get("stat:%s/%s" % (sp["kind"], sp["via"]), 0) + 1
    res = {"digest": r.digest(), "clean": r.clean, "counters": cnt,
           "final_case": devscommon.replay_form(case, r),
           "sums": {},
           "nontrivial": nontrivial,
           "case_digest": common.digest8([case["program"], case["stats"], case["commands"]]),
           "observed": {"obs_after_warmup": [list(o) for o in (ref.obs if ref else [])][:8]}}
    devscommon.detsim_stats(res, case, r)
    if findings:
        res["status"] = "violation"
        res["check_id"], res["message"] = findings[0]
        if findings[0][0] == "harness":
            res["status"] = "harness"
    else:
        res["status"] = "ok"
    return res


def case_size(case):
    p = case["program"]
    return {"events": len(p["events"]), "commands": len(case["commands"]),
            "observations": program.count_actions(p, "obs"), "stats": len(case["stats"])}


def shrink(case, fails):
    import copy
    case = shr.shrink_devs_case(case, fails)
    if case.get("probe"):
        c = copy.deepcopy(case)
        c["probe"] = False
        if fails(c):
            case = c
    return case
