"""C09 — Tally and Counter report the textbook statistics of the registered
observations; queries are total; rejected input changes nothing."""
import math

from vf import common, shrink as shr, twothread
from vf.models import refstats

common.use_repo()
from pydsol.core.interfaces import StatEvents                    # noqa: E402
from pydsol.core.pubsub import EventListener                      # noqa: E402
from pydsol.core.statistics import (Tally, Counter, EventBasedTally,   # noqa: E402
                                    EventBasedCounter)
from pydsol.core.units import Duration, Length                    # noqa: E402
import pydsol.core.statistics as _statmod                         # noqa: E402

PROPERTY = "C09"
LEVEL = "exploration"
BUDGET = {"quick": 30000, "thorough": 2000000}
WALL_CAP = {"quick": 150, "thorough": 3000}
CHUNK = 300
RULE = ("one case = a history over a Tally / EventBasedTally without and with a "
        "subscriber / Counter / EventBasedCounter: register(valid), "
        "register(rejected: NaN, str, None, list; non-int for counters), "
        "initialize(), query-everything; data regimes: small ints, dyadic floats, "
        "mixed magnitude (|x| <= 1e60), large offset + small spread (condition "
        "number up to 1e6), all equal, n from 0 to 60 (quick) / 2000 (thorough). "
        "Oracle: exact rational arithmetic over the accepted observations since the "
        "last initialize: every getter returns (never raises), NaN exactly where "
        "undefined, otherwise within 64(n+8)eps(1+kappa)^p B_p of the exact value; "
        "counter exact; a rejected call leaves every getter bit-identical; with a "
        "subscriber every published value equals the getter. non-trivial = at least "
        "3 accepted observations and at least one rejected input or initialize in "
        "the history; distinct = digest of the history")
COMPONENTS = {"real": ["pydsol.core.statistics (Tally, Counter, EventBasedTally, EventBasedCounter)",
                       "pydsol.core.pubsub"],
              "stub": ["threading.Thread.start / thread scheduling (baton scheduler, two-thread layer only)"]}
ASSUMPTIONS = ["weak fit for the single-caller layer (history + exact reference model, no scheduler or clock); the two-thread layer runs a registering and a querying caller thread under the baton scheduler and judges only the state after both have finished (values read during the overlap and concurrent registration from two threads are not judged: the property does not promise them)",
               "confidence_interval(alpha) only for 0 < alpha <= 1",
               "skewness/kurtosis accuracy is only judged while the bound 64(n+8)eps(1+kappa)^p stays below 1e-3 (ill-conditioned data: totality and NaN structure only)"]

GETTERS = [("n",), ("min",), ("max",), ("sum",), ("mean",), ("variance",),
           ("variance", False), ("stdev",), ("stdev", False), ("skewness",),
           ("skewness", False), ("kurtosis",), ("kurtosis", False),
           ("excess_kurtosis",), ("excess_kurtosis", False)]
EVENT_GETTER = {
    "N_EVENT": ("n",), "MIN_EVENT": ("min",), "MAX_EVENT": ("max",),
    "SUM_EVENT": ("sum",), "MEAN_EVENT": ("mean",),
    "POPULATION_STDEV_EVENT": ("stdev",), "POPULATION_VARIANCE_EVENT": ("variance",),
    "POPULATION_SKEWNESS_EVENT": ("skewness",), "POPULATION_KURTOSIS_EVENT": ("kurtosis",),
    "POPULATION_EXCESS_K_EVENT": ("excess_kurtosis",),
    "SAMPLE_STDEV_EVENT": ("stdev", False), "SAMPLE_VARIANCE_EVENT": ("variance", False),
    "SAMPLE_SKEWNESS_EVENT": ("skewness", False), "SAMPLE_KURTOSIS_EVENT": ("kurtosis", False),
    "SAMPLE_EXCESS_K_EVENT": ("excess_kurtosis", False)}


def gname(g):
    return g[0] + ("" if len(g) == 1 else "(unbiased)")


def gen_values(rng, regime, n):
    if regime == "small_ints":
        return [rng.randint(-5, 9) for _ in range(n)]
    if regime == "dyadic":
        return [rng.randint(-40, 40) / 8.0 for _ in range(n)]
    if regime == "mixed":
        return [rng.choice([-1, 1]) * rng.uniform(1, 10) * 10.0 ** rng.randint(-30, 60)
                for _ in range(n)]
    if regime == "offset":
        off = 10.0 ** rng.randint(2, 6)
        return [off + rng.uniform(-1, 1) for _ in range(n)]
    if regime == "equal":
        v = rng.choice([0, 1, 2.5, -3, 1e6, 1e-3])
        return [v] * n
    if regime == "two_values":
        a, b = rng.choice([(0, 1), (1.0, 1.5), (-2, 2)])
        return [rng.choice([a, b]) for _ in range(n)]
    return [rng.random() for _ in range(n)]


def init_worker():
    twothread.install(_statmod)


def gen_threaded(rng, seed):
    """Two caller threads share one tally / counter: one registers, the other
    queries meanwhile (seeded pre-emption inside statistics.py); only the state
    after both have finished is judged."""
    kind = rng.choice(["tally", "tally", "counter"])
    n = rng.choice([1, 2, 3, 4, 6, 10])
    if kind == "counter":
        vals = [rng.choice([1, 1, -1, 2, 5, 0]) for _ in range(n)]
    else:
        vals = gen_values(rng, rng.choice(["small_ints", "dyadic", "two_values"]), n)
    return {"kind": kind, "variant": rng.choice(["plain", "event"]), "threaded": True,
            "regime": "two_threads", "ops": [["reg", v] for v in vals],
            "queries": rng.choice([1, 2, 3, 6]),
            "sched": {"seed": seed, "p": rng.choice([0.02, 0.1, 0.3]),
                      "d": rng.choice([2, 4, 8, 20])}}


def run_threaded(case):
    info = {"accepted": 0, "rejected": 0, "inits": 0, "published": 0}
    if case["kind"] == "counter":
        st = Counter("c") if case["variant"] == "plain" else EventBasedCounter("c")
    else:
        st = Tally("t") if case["variant"] == "plain" else EventBasedTally("t")
    xs = [op[1] for op in case["ops"]]

    def writer():
        for x in xs:
            st.register(x)

    def reader():
        for _ in range(case["queries"]):
            if case["kind"] == "counter":
                st.count()
                st.n()
            else:
                read(st, GETTERS)
                st.confidence_interval(0.05)

    init_worker()          # (idempotent; the shrinker evaluates in forks of the parent)
    det, errors = twothread.run_two(case["sched"], writer, reader)
    info["switches"] = det.n_switch
    info["schedule"] = [det.ydigest, det.step, [list(d) for d in det.decisions]]
    info["accepted"] = len(xs)
    if det.aborted:
        return ("harness", "two-thread run aborted: %s" % det.aborted), info
    for who, name, msg in errors:
        if who == "writer":
            return ("register-raised", "with a second thread querying, the registering "
                    "thread raised %s: %s" % (name, msg)), info
    if case["kind"] == "counter":
        if st.count() != sum(xs) or st.n() != len(xs):
            return ("getter", "one thread registered %s while another queried the counter; "
                    "after both have finished count=%r n=%r, exact count=%d n=%d"
                    % (xs[:6], st.count(), st.n(), sum(xs), len(xs))), info
        return None, info
    ex = refstats.tally_exact(xs)
    got = read(st, GETTERS)
    for g in GETTERS:
        name = gname(g)
        exact, tol = ex[name]
        msg = refstats.compare(name, got[name], exact, tol)
        if msg:
            return ("getter", "one thread registered %s while another queried the tally (%d "
                    "thread switches inside statistics.py); after both have finished: %s"
                    % (xs[:6], det.n_switch, msg)), info
    if len(xs) >= 2:
        ci = st.confidence_interval(0.05)
        lo, hi, c = refstats.ci_exact(xs, 0.05, ex)
        tol = (abs(c) + abs(lo) + abs(hi)) * 64 * (len(xs) + 8) * refstats.EPS \
            * (1 + ex.get("_kappa", 1.0)) + ex["mean"][1] + 1e-300
        if any(isinstance(v, float) and math.isnan(v) for v in ci) or \
                abs(ci[0] - lo) > tol or abs(ci[1] - hi) > tol:
            return ("getter", "one thread registered %s while another queried the tally; after "
                    "both have finished confidence_interval(0.05) returns %r, definition "
                    "gives (%r, %r)" % (xs[:6], ci, lo, hi)), info
    return None, info


def run_giant(case):
    """Hundreds of thousands of observations on one tally / counter: integer data,
    exact sums as reference, relative tolerance 1e-7."""
    import random as _random
    from fractions import Fraction
    rng = _random.Random(case["seed"])
    info = {"accepted": case["n"], "rejected": 0, "inits": 1, "published": 0}
    st = Tally("t")
    ct = Counter("c")
    s1 = s2 = 0
    for _ in range(case["n"]):
        v = rng.randrange(0, 10)
        st.register(float(v))
        ct.register(v)
        s1 += v
        s2 += v * v
    n = case["n"]
    mean = Fraction(s1, n)
    var = Fraction(s2, n) - mean * mean
    if ct.count() != s1 or ct.n() != n or st.n() != n:
        return ("getter", "after %d observations count=%r n=%r / tally n=%r, exact %d / %d"
                % (n, ct.count(), ct.n(), st.n(), s1, n)), info
    for name, exact in (("sum", Fraction(s1)), ("mean", mean), ("variance", var)):
        got = getattr(st, name)()
        if not isinstance(got, (int, float)) or \
                abs(Fraction(got) - exact) > abs(exact) * Fraction(1, 10 ** 7):
            return ("getter", "after %d observations on one tally %s() returns %r, the "
                    "definition gives %.12g (relative tolerance 1e-7)"
                    % (n, name, got, float(exact))), info
    return None, info


def generate(seed, tier, idx=0):
    rng = common.rng_for(seed, "case")
    if rng.random() < (1e-4 if tier == "quick" else 1e-3):
        return {"kind": "giant", "variant": "plain", "regime": "giant",
                "n": rng.choice([260000, 520000]), "seed": rng.getrandbits(32), "ops": []}
    if rng.random() < 0.12:
        return gen_threaded(rng, seed)
    if rng.random() < 0.12:
        n = rng.choice([0, 1, 2, 5, 20])
        ops = []
        for _ in range(n):
            r = rng.random()
            if r < 0.7:
                ops.append(["reg", rng.choice([1, 1, -1, 2, 5, 0, -3])])
            elif r < 0.85:
                ops.append(["bad", rng.choice(["1.0", "str", "none", "nan"])])
            elif r < 0.93:
                ops.append(["init"])
            else:
                ops.append(["query"])
        return {"kind": "counter", "variant": rng.choice(["plain", "event", "event+sub"]),
                "ops": ops}
    regime = rng.choice(["small_ints", "dyadic", "mixed", "offset", "equal",
                         "two_values", "uniform"])
    big = [0, 1, 2, 3, 4, 5, 8, 12, 20, 40, 60]
    if tier == "thorough":
        big += [200, 500, 2000]
    n = rng.choice(big)
    vals = gen_values(rng, regime, n)
    ops = []
    subclass = rng.random() < 0.15      # some observations are quantities (float subclasses)
    via_event = rng.random() < 0.5
    for v in vals:
        if subclass and rng.random() < 0.3:
            ops.append(["regq", float(v), rng.choice(["s", "min", "m"]), via_event])
        else:
            ops.append(["reg", v])
        r = rng.random()
        if r < 0.06:
            ops.append(["bad", rng.choice(["nan", "str", "none", "list", "hugeint", "neghugeint"])])
        elif r < 0.09:
            ops.append(["init"])
        elif r < 0.16:
            ops.append(["query", rng.choice([0.05, 0.5, 1.0, 0.01, 1e-6, 0.02, 0.1, 0.2, 0.001,
                                             0.025, 0.15, round(rng.uniform(0.001, 0.999), 3),
                                             1e-9, 1.973e-9, 1e-12, 1 - 1e-9])])
    if rng.random() < 0.5:
        ops.insert(0, ["query", 0.05])
    return {"kind": "tally", "variant": rng.choice(["plain", "event", "event+sub", "event+sub"]),
            "regime": regime, "ops": ops}


class Sub(EventListener):
    def __init__(self, stat, table):
        self.stat = stat
        self.table = {id(getattr(StatEvents, k)): (k, g) for k, g in table.items()}
        self.bad = []
        self.count = 0
        self.last = {}

    def settle(self):
        """After the registering call returned: what was published for it must
        describe the state that includes the observation."""
        for k, (c, g) in self.last.items():
            now = getattr(self.stat, g[0])(*g[1:])
            same = c == now or (isinstance(c, float) and isinstance(now, float)
                                and math.isnan(c) and math.isnan(now))
            if not same:
                self.bad.append("the last %s published is %r but %s() returns %r once the "
                                "observation is registered" % (k, c, gname(g), now))
                break
        self.last = {}

    def notify(self, event):
        self.count += 1
        ent = self.table.get(id(event.event_type))
        if ent is None:
            return
        k, g = ent
        now = getattr(self.stat, g[0])(*g[1:])
        c = event.content
        self.last[k] = (c, g)
        same = c == now or (isinstance(c, float) and isinstance(now, float)
                            and math.isnan(c) and math.isnan(now))
        if not same:
            self.bad.append("published %s = %r but %s() returns %r" % (k, c, gname(g), now))


class _F64(float):
    """Stand-in for numpy.float64: a float subclass."""


def read(stat, getters):
    out = {}
    for g in getters:
        try:
            out[gname(g)] = getattr(stat, g[0])(*g[1:])
        except Exception as e:
            out[gname(g)] = "raised:%s: %s" % (type(e).__name__, e)
    return out


def snapshot_text(d):
    return {k: (common.fhex(v) if isinstance(v, float) else repr(v)) for k, v in d.items()}


BAD = {"nan": float("nan"), "str": "abc", "none": None, "list": [1.0], "1.0": 1.0,
       # plain ints beyond the float range: cannot be an observation, any refusal will do
       "hugeint": 10 ** 400, "neghugeint": -(2 ** 1100)}


def run_tally(case):
    info = {"accepted": 0, "rejected": 0, "inits": 0, "published": 0}
    variant = case["variant"]
    st = Tally("t") if variant == "plain" else EventBasedTally("t")
    sub = None
    if variant == "event+sub":
        sub = Sub(st, EVENT_GETTER)
        for k in list(EVENT_GETTER) + ["OBSERVATION_ADDED_EVENT", "INITIALIZED_EVENT"]:
            st.add_listener(getattr(StatEvents, k), sub)
    xs = []

    def check_all(step, alpha=None):
        ex = refstats.tally_exact(xs)
        got = read(st, GETTERS)
        for g in GETTERS:
            name = gname(g)
            exact, tol = ex[name]
            msg = refstats.compare(name, got[name], exact, tol)
            if msg:
                return ("getter", "after op #%d with %d observations %s (regime %s, "
                        "condition number %.3g): %s"
                        % (step, len(xs), xs[:6] + (["..."] if len(xs) > 6 else []),
                           case.get("regime"), ex.get("_kappa", 1.0), msg))
        if alpha is not None:
            try:
                # (every third query passes alpha as an instance of a float subclass,
                # as numpy.float64 is)
                ci = st.confidence_interval(_F64(alpha) if step % 3 == 0 else alpha)
            except Exception as e:
                return ("getter", "confidence_interval(%r) raised %s: %s with %d observations"
                        % (alpha, type(e).__name__, e, len(xs)))
            exci = refstats.ci_exact(xs, alpha, ex) if len(xs) >= 2 else "nan"
            if exci == "nan":
                if not (isinstance(ci, tuple) and all(isinstance(c, float) and math.isnan(c) for c in ci)):
                    return ("getter", "confidence_interval(%r) returned %r with %d "
                            "observations (NaN, NaN expected)" % (alpha, ci, len(xs)))
            else:
                lo, hi, c = exci
                tol = (abs(c) + abs(lo) + abs(hi)) * 64 * (len(xs) + 8) * refstats.EPS \
                    * (1 + ex.get("_kappa", 1.0)) + ex["mean"][1] + 1e-300
                if any(isinstance(v, float) and math.isnan(v) for v in ci) or \
                        abs(ci[0] - lo) > tol or abs(ci[1] - hi) > tol:
                    return ("getter", "confidence_interval(%r) returned %r, definition gives "
                            "(%r, %r)" % (alpha, ci, lo, hi))
        return None

    for i, op in enumerate(case["ops"]):
        if op[0] == "reg":
            try:
                st.register(op[1])
            except Exception as e:
                return ("register-raised", "op #%d register(%r) (observation #%d, previous "
                        "%s) raised %s: %s" % (i, op[1], len(xs) + 1, xs[-3:],
                                               type(e).__name__, e)), info
            xs.append(op[1])
            info["accepted"] += 1
            if sub is not None:
                sub.settle()
        elif op[0] == "regq":
            # a quantity is a float: it is either registered with its plain
            # (si) value or rejected without changing anything
            q = Length(op[1], "m") if op[2] == "m" else Duration(op[1], op[2])
            before = snapshot_text(read(st, GETTERS))
            try:
                if op[3] and variant != "plain":
                    from pydsol.core.pubsub import Event
                    st.notify(Event(StatEvents.DATA_EVENT, q))
                else:
                    st.register(q)
                xs.append(float(q))
                info["accepted"] += 1
                if sub is not None:
                    sub.settle()
            except Exception as e:
                after = snapshot_text(read(st, GETTERS))
                info["rejected"] += 1
                if before != after:
                    diff = {k: (before[k], after[k]) for k in before if before[k] != after[k]}
                    return ("rejected-input-changed-state", "op #%d: the observation %r (a "
                            "float subclass) raised %s: %s and changed %s"
                            % (i, q, type(e).__name__, e, diff)), info
        elif op[0] == "bad":
            before = snapshot_text(read(st, GETTERS))
            try:
                st.register(BAD[op[1]])
                return ("invalid-accepted", "op #%d register(%.40r) was accepted"
                        % (i, BAD[op[1]])), info
            except (TypeError, ValueError, OverflowError):
                pass
            after = snapshot_text(read(st, GETTERS))
            info["rejected"] += 1
            if before != after:
                diff = {k: (before[k], after[k]) for k in before if before[k] != after[k]}
                return ("rejected-input-changed-state", "op #%d rejected register(%.40r) "
                        "changed %s" % (i, BAD[op[1]], diff)), info
        elif op[0] == "init":
            st.initialize()
            xs = []
            info["inits"] += 1
        elif op[0] == "query":
            f = check_all(i, op[1] if len(op) > 1 else None)
            if f:
                return f, info
        if sub is not None and sub.bad:
            return ("published-value", "op #%d %s: %s" % (i, op, sub.bad[0])), info
    f = check_all(len(case["ops"]), 0.05)
    if sub is not None:
        info["published"] = sub.count
    return f, info


def run_counter(case):
    info = {"accepted": 0, "rejected": 0, "inits": 0, "published": 0}
    variant = case["variant"]
    st = Counter("c") if variant == "plain" else EventBasedCounter("c")
    sub = None
    if variant == "event+sub":
        sub = Sub(st, {"N_EVENT": ("n",), "COUNT_EVENT": ("count",)})
        for k in ("N_EVENT", "COUNT_EVENT", "OBSERVATION_ADDED_EVENT"):
            st.add_listener(getattr(StatEvents, k), sub)
    total, n = 0, 0
    for i, op in enumerate(case["ops"]):
        if op[0] == "reg":
            try:
                st.register(op[1])
            except Exception as e:
                return ("register-raised", "counter register(%r) raised %s"
                        % (op[1], type(e).__name__)), info
            total += op[1]
            n += 1
            info["accepted"] += 1
            if sub is not None:
                sub.settle()
        elif op[0] == "bad":
            try:
                st.register(BAD[op[1]])
                return ("invalid-accepted", "counter register(%r) was accepted"
                        % (BAD[op[1]],)), info
            except (TypeError, ValueError):
                pass
            info["rejected"] += 1
        elif op[0] == "init":
            st.initialize()
            total, n = 0, 0
            info["inits"] += 1
        if st.count() != total or st.n() != n:
            return ("getter", "after op #%d %s the counter reports count=%r n=%r, exact "
                    "count=%d n=%d" % (i, op, st.count(), st.n(), total, n)), info
        if sub is not None and sub.bad:
            return ("published-value", sub.bad[0]), info
    return None, info


def execute(case):
    if case["kind"] == "giant":
        f, info = run_giant(case)
    elif case.get("threaded"):
        f, info = run_threaded(case)
    else:
        f, info = run_tally(case) if case["kind"] == "tally" else run_counter(case)
    res = {"clean": f is None or f[0] != "harness", "digest": common.digest([case, f and f[0], info.get("schedule")]),
           "counters": {"variant:" + case["variant"]: 1,
                        "regime:" + case.get("regime", "counter"): 1,
                        "fault:rejected_input": info["rejected"],
                        "accepted_observations": info["accepted"],
                        "published_values_checked": info["published"],
                        "layer:two_threads": 1 if case.get("threaded") else 0,
                        "fault:preempt": info.get("switches", 0)},
           "nontrivial": info["accepted"] >= 3 and (info["rejected"] + info["inits"]
                                                    + info.get("switches", 0)) >= 1,
           "case_digest": common.digest8(case)}
    if f:
        res["status"] = "harness" if f[0] == "harness" else "violation"
        res["check_id"], res["message"] = f
    else:
        res["status"] = "ok"
    return res


def case_size(case):
    return {"ops": len(case["ops"])}


def shrink(case, fails):
    ops = shr.ddmin(case["ops"], lambda o: fails(dict(case, ops=o)))
    case = dict(case, ops=ops)
    if case["variant"] == "event+sub" and fails(dict(case, variant="plain")):
        case["variant"] = "plain"
    return case
