"""C08 — publish/subscribe: a fired event reaches exactly its subscribers,
once, in subscription order, also under re-entrant membership changes and
nested firing; payload metadata is enforced; timed events keep their
timestamp."""
from vf import common, shrink as shr

common.use_repo()
from pydsol.core.pubsub import (EventType, Event, TimedEvent, EventListener,  # noqa: E402
                                EventProducer, EventError)

PROPERTY = "C08"
LEVEL = "exploration"
BUDGET = {"quick": 150000, "thorough": 15000000}
WALL_CAP = {"quick": 150, "thorough": 3000}
CHUNK = 2000
RULE = ("one case = a history of up to 40 operations over one EventProducer, 2-4 "
        "event types and 2-5 listeners (add_listener, remove_listener, "
        "remove_all_listeners in its four argument forms, fire, fire_timed, "
        "has_listeners, ill-typed calls) where every listener carries a script "
        "'on my n-th notification of type T do ops' (re-entrant (un)subscription "
        "and nested firing, depth <= 3; 30 % of the histories use falsy listeners: "
        "inbox objects with __len__, objects with __bool__ False), plus (metadata declaration, payload, "
        "check flag) probes; the global delivery log (listener, type, content, "
        "timestamp) is compared with a subscription reference model with "
        "snapshot-at-fire semantics. non-trivial = at least one delivery happened "
        "while a listener script changed the membership of the type being "
        "delivered or fired a nested event; distinct = digest of the history")
COMPONENTS = {"real": ["pydsol.core.pubsub (EventProducer, EventType, Event, TimedEvent, EventListener)"],
              "stub": []}
ASSUMPTIONS = ["sizes are swarm-varied: about 2 % of the histories have 9-40 listeners, 1 % have 150 or 400 operations",
               "metadata entries of type NoneType and payload values equal to None are not generated (the '== None' test makes that corner ambiguous)",
               "single-threaded: re-entrancy is the interleaving; the baton scheduler is idle"]

# event types are process-global and must have unique names: fixed pools
class _ScopeA:
    CHANGED = EventType("VF_C08_CHANGED")


class _ScopeB:
    CHANGED = EventType("VF_C08_CHANGED")     # same name, other defining class


def _make_types():
    # two of the four plain types share their name but are defined in
    # different classes: they are different event types
    plain = [EventType("VF_C08_T0"), _ScopeA.CHANGED, _ScopeB.CHANGED, EventType("VF_C08_T3")]
    decls = [
        {"a": int}, {"a": int, "b": str}, {"x": float}, {"a": int, "b": float, "c": str},
        {}, {"s": str}, {"l": list, "d": dict}, {"a": bool},
    ]
    meta = [EventType("VF_C08_M%d" % i, dict(d)) for i, d in enumerate(decls)]
    return plain, decls, meta


PLAIN, DECLS, META = _make_types()
TYPE_BY_NAME = {"int": int, "str": str, "float": float, "list": list,
                "dict": dict, "bool": bool}
VALUES = [1, 0, -3, 2.5, 0.0, "s", "", True, False, [1], [], {"k": 1}, {}, (1,)]


def gen_ops(rng, n, n_types, n_list, depth, two=False):
    ops = []
    for _ in range(n):
        r = rng.random()
        t = rng.randrange(n_types)
        if two and rng.random() < 0.4:
            t += 100          # the same event type on the second producer
        l = rng.randrange(n_list)
        if r < 0.28:
            ops.append(["add", t, l])
        elif r < 0.40:
            ops.append(["remove", t, l])
        elif r < 0.48:
            form = rng.choice(["all", "type", "listener", "both"])
            ops.append(["remove_all", form, t, l])
        elif r < 0.80:
            ops.append(["fire", t] if depth < 3 or True else ["has"])
        elif r < 0.92:
            ops.append(["fire_timed", t, rng.choice([0, 1, 2.5, -1.0, 10, 1e9])])
        elif r < 0.97:
            ops.append(["has"])
        else:
            ops.append(["bad", rng.choice(["add_type", "add_listener", "remove_type",
                                           "fire_type", "timed_ts", "fire_event_wrong",
                                           "remove_all_type"])])
    return ops


def generate(seed, tier, idx=0):
    rng = common.rng_for(seed, "case")
    if rng.random() < 0.12:
        # metadata probe
        probes = []
        for _ in range(rng.randint(1, 8)):
            m = rng.randrange(len(DECLS))
            decl = DECLS[m]
            style = rng.random()
            if style < 0.4:
                payload = {k: _value_of(rng, v) for k, v in decl.items()}
            elif style < 0.55:
                payload = {k: _value_of(rng, v) for k, v in decl.items()}
                if payload and rng.random() < 0.5:
                    payload.pop(rng.choice(sorted(payload)))
                else:
                    payload["extra"] = 1
            elif style < 0.75:
                payload = {k: rng.choice(VALUES) for k in decl}
            elif style < 0.85:
                payload = {(k + "_") if rng.random() < 0.5 else k: _value_of(rng, v)
                           for k, v in decl.items()}
            else:
                payload = rng.choice([1, "x", [1, 2], 2.5, (1,)])
            probes.append([m, payload, rng.random() < 0.75, rng.random() < 0.3])
            if isinstance(payload, dict) and rng.random() < 0.25:
                # the payload is a dict subclass whose [] invents values for absent keys
                # (Counter, defaultdict): absent declared keys are still absent
                probes[-1].append(rng.choice(["counter", "defaultdict_int", "defaultdict_str",
                                              "missing_first_value", "mappingproxy",
                                              "userdict", "chainmap"]))
                continue
            if isinstance(payload, dict) and rng.random() < 0.3:
                # a producer that reuses one payload dict: the SAME object, changed
                # in place, is used for the same event type again
                keys = sorted(payload)
                how = rng.choice(["del", "set", "add", "none"])
                if how == "del" and keys:
                    mut = ["del", rng.choice(keys)]
                elif how == "set" and keys:
                    mut = ["set", rng.choice(keys), rng.choice(VALUES)]
                elif how == "add":
                    mut = ["set", "extra2", 1]
                else:
                    mut = ["none"]
                probes.append([m, mut, rng.random() < 0.85, rng.random() < 0.3, "reuse"])
        return {"kind": "metadata", "probes": probes}
    n_types = rng.randint(2, 4)
    n_list = rng.randint(2, 5)
    if rng.random() < 0.02:
        n_list = rng.choice([9, 17, 40])       # occasional crowds of listeners
    scripts = {}
    # two producers that publish the same (static) event types; listeners may be
    # subscribed to both and fire on one from inside a notification of the other
    two = rng.random() < 0.3
    for l in range(n_list):
        if rng.random() < 0.6:
            for _ in range(rng.randint(1, 3)):
                key = "%d:%d:%d" % (l, rng.randrange(n_types) + (100 if two and rng.random() < 0.4 else 0),
                                    rng.randint(1, 3))
                scripts[key] = gen_ops(rng, rng.randint(1, 3), n_types, n_list, 1, two)
                if rng.random() < 0.12:
                    # the listener fails: the exception reaches whoever fired
                    scripts[key].insert(rng.randint(0, len(scripts[key])),
                                        ["raise", rng.choice(["KeyError", "ValueError",
                                                              "RuntimeError", "LookupError",
                                                              "StopIteration", "IndexError"])])
    ops = gen_ops(rng, rng.choice([3, 5, 8, 12, 20, 30, 40]) if rng.random() > 0.01
                  else rng.choice([150, 400]), n_types, n_list, 0, two)
    case = {"kind": "history", "n_types": n_types, "n_listeners": n_list,
            "ops": ops, "scripts": scripts}
    if rng.random() < 0.3:
        # what the listeners' notify() returns (index = listener number)
        case["returns"] = [rng.choice([None, True, False, 1, 0, "handled", [], [0]])
                           for _ in range(n_list)]
    if rng.random() < 0.3:
        # listeners that are legal EventListener objects but falsy: an inbox with
        # __len__ (empty until its first delivery) or a permanently false object
        case["listener_kinds"] = [rng.choice(["plain", "inbox", "inbox", "falsy"])
                                  for _ in range(n_list)]
    return case


def _value_of(rng, tp):
    return {int: rng.choice([1, 0, -7]), str: rng.choice(["a", ""]),
            float: rng.choice([1.5, 0.0]), list: [1], dict: {"k": 1},
            bool: rng.choice([True, False])}[tp]


# ---------------------------------------------------------------------------

class Listener(EventListener):
    def __init__(self, idx, world):
        self.idx = idx
        self.world = world

    def notify(self, event):
        self.world.delivered(self, event)
        # notify() has no specified return value: whatever a listener returns
        # (e.g. 'return self.handle(event)') must not matter to the producer
        return self.world.returns[self.idx % len(self.world.returns)]


class ListenerFailure(Exception):
    pass


# failures of listeners: each class also derives from a builtin, so that library code
# which catches that builtin for its own purposes (except KeyError: ...) sees it
LISTENER_EXC = {n: type("Listener" + n, (ListenerFailure, getattr(__builtins__, n)
                                         if not isinstance(__builtins__, dict)
                                         else __builtins__[n]), {})
                for n in ("KeyError", "ValueError", "RuntimeError", "LookupError",
                          "StopIteration", "IndexError")}


class InboxListener(Listener):
    """Keeps what it received; len() = number of deliveries (falsy while empty)."""

    def __init__(self, idx, world):
        super().__init__(idx, world)
        self.inbox = []

    def notify(self, event):
        self.inbox.append(event)
        super().notify(event)

    def __len__(self):
        return len(self.inbox)


class FalsyListener(Listener):
    def __bool__(self):
        return False


LISTENER_KINDS = {"plain": Listener, "inbox": InboxListener, "falsy": FalsyListener}


class World:
    """Runs the history on the real producer."""

    def __init__(self, case):
        self.case = case
        self.ps = [EventProducer(), EventProducer()]
        self.p = self.ps[0]
        self.firing = []          # producer index of the fires in progress (innermost last)
        self.types = PLAIN[:case["n_types"]]
        kinds = case.get("listener_kinds") or ["plain"] * case["n_listeners"]
        self.listeners = [LISTENER_KINDS[kinds[i]](i, self) for i in range(case["n_listeners"])]
        self.returns = case.get("returns") or [None]
        self.log = []
        self.counts = {}
        self.depth = 0
        self.content = 0
        self.errors = []
        self.nested = 0

    def delivered(self, listener, event):
        t = self.types.index(event.event_type) + 100 * (self.firing[-1] if self.firing else 0)
        ts = event.timestamp if isinstance(event, TimedEvent) else None
        self.log.append((listener.idx, t, event.content, ts))
        k = self.counts.get((listener.idx, t), 0) + 1
        self.counts[(listener.idx, t)] = k
        script = self.case["scripts"].get("%d:%d:%d" % (listener.idx, t, k))
        if script:
            self.depth += 1
            self.nested += 1
            try:
                for op in script:
                    self.apply(op)
            finally:
                self.depth -= 1

    def apply_top(self, op):
        """A top-level operation: an exception raised by a listener travels through
        every fire in progress and arrives here."""
        try:
            self.apply(op)
        except ListenerFailure as e:
            self.log.append(("raised", type(e).__name__))

    def apply(self, op):
        name = op[0]
        if name == "raise":
            raise LISTENER_EXC[op[1]]("listener failed")
        tix = op[2] if name == "remove_all" else (op[1] if name in ("add", "remove", "fire",
                                                                    "fire_timed") else 0)
        pi = 1 if isinstance(tix, int) and tix >= 100 else 0
        p = self.ps[pi]
        if name in ("add", "remove", "fire", "fire_timed"):
            op = [op[0], op[1] % 100] + list(op[2:])
        elif name == "remove_all":
            op = [op[0], op[1], op[2] % 100, op[3]]
        if name in ("fire", "fire_timed"):
            if self.depth >= 3:
                return
            self.firing.append(pi)
            try:
                return self._apply(p, op)
            finally:
                self.firing.pop()
        return self._apply(p, op)

    def _apply(self, p, op):
        name = op[0]
        if name == "add":
            p.add_listener(self.types[op[1]], self.listeners[op[2]])
        elif name == "remove":
            p.remove_listener(self.types[op[1]], self.listeners[op[2]])
        elif name == "remove_all":
            form, t, l = op[1], self.types[op[2]], self.listeners[op[3]]
            if form == "all":
                p.remove_all_listeners()
            elif form == "type":
                p.remove_all_listeners(event_type=t)
            elif form == "listener":
                p.remove_all_listeners(listener=l)
            else:
                p.remove_all_listeners(t, l)
        elif name == "fire":
            if self.depth >= 3:
                return
            self.content += 1
            if self.content % 3 == 0:
                p.fire_event(Event(self.types[op[1]], self.content))    # direct form
            else:
                p.fire(self.types[op[1]], self.content)
        elif name == "fire_timed":
            if self.depth >= 3:
                return
            self.content += 1
            if self.content % 3 == 0:
                p.fire_timed_event(TimedEvent(op[2], self.types[op[1]], self.content))
            else:
                p.fire_timed(op[2], self.types[op[1]], self.content)
        elif name == "has":
            self.log.append(("has", p.has_listeners()))
        elif name == "bad":
            kind = op[1]
            try:
                if kind == "add_type":
                    p.add_listener("T", self.listeners[0])
                elif kind == "add_listener":
                    p.add_listener(self.types[0], object())
                elif kind == "remove_type":
                    p.remove_listener(None, self.listeners[0])
                elif kind == "fire_type":
                    p.fire("T", 1)
                elif kind == "timed_ts":
                    p.fire_timed("now", self.types[0], 1)
                elif kind == "fire_event_wrong":
                    p.fire_timed_event(Event(self.types[0], 1))
                elif kind == "remove_all_type":
                    p.remove_all_listeners(event_type="T")
                self.log.append(("bad", kind, "accepted"))
            except EventError:
                self.log.append(("bad", kind, "EventError"))


class RefWorld:
    """Subscription reference model: dict type -> ordered list, snapshot at
    the moment of firing, nested deliveries depth-first."""

    def __init__(self, case):
        self.case = case
        self.subs = {}
        self.log = []
        self.counts = {}
        self.depth = 0
        self.content = 0
        self.reentrant = 0

    def fire(self, t, ts):
        self.content += 1
        content = self.content
        for l in list(self.subs.get(t, [])):
            self.log.append((l, t, content, ts))
            k = self.counts.get((l, t), 0) + 1
            self.counts[(l, t)] = k
            script = self.case["scripts"].get("%d:%d:%d" % (l, t, k))
            if script:
                self.depth += 1
                try:
                    for op in script:
                        if op[0] in ("fire", "fire_timed") and self.depth < 3:
                            self.reentrant += 1
                        elif op[0] in ("add", "remove", "remove_all"):
                            self.reentrant += 1
                        self.apply(op)
                finally:
                    self.depth -= 1

    def apply_top(self, op):
        try:
            self.apply(op)
        except ListenerFailure as e:
            self.log.append(("raised", type(e).__name__))

    def apply(self, op):
        name = op[0]
        if name == "raise":
            raise LISTENER_EXC[op[1]]("listener failed")
        if name == "add":
            lst = self.subs.setdefault(op[1], [])
            if op[2] not in lst:
                lst.append(op[2])
        elif name == "remove":
            lst = self.subs.get(op[1], [])
            if op[2] in lst:
                lst.remove(op[2])
        elif name == "remove_all":
            form, t, l = op[1], op[2], op[3]
            same = [k for k in self.subs if (k >= 100) == (t >= 100)]   # that producer's types
            if form == "all":
                for k in same:
                    self.subs.pop(k)
            elif form == "type":
                self.subs.pop(t, None)
            elif form == "listener":
                for k in same:
                    if l in self.subs[k]:
                        self.subs[k].remove(l)
            else:
                lst = self.subs.get(t, [])
                if l in lst:
                    lst.remove(l)
        elif name == "fire":
            if self.depth >= 3:
                return
            self.fire(op[1], None)
        elif name == "fire_timed":
            if self.depth >= 3:
                return
            self.fire(op[1], op[2])
        elif name == "has":
            self.log.append(("has", any(self.subs.get(t) for t in self.subs if t < 100)))
        elif name == "bad":
            self.log.append(("bad", op[1], "EventError"))


def check_metadata(case):
    import copy
    prev = None
    for probe in copy.deepcopy(case["probes"]):      # (payloads are changed in place below)
        m, payload, check, timed = probe[:4]
        if len(probe) > 4 and probe[4] != "reuse":
            import collections
            kind = probe[4]
            if kind == "counter":
                payload = collections.Counter(payload) if all(
                    isinstance(v, int) and not isinstance(v, bool) for v in payload.values()) \
                    else collections.defaultdict(int, payload)
            elif kind == "defaultdict_int":
                payload = collections.defaultdict(int, payload)
            elif kind == "defaultdict_str":
                payload = collections.defaultdict(str, payload)
            elif kind == "mappingproxy":
                import types
                payload = types.MappingProxyType(dict(payload))      # a Mapping, not a dict
            elif kind == "userdict":
                payload = collections.UserDict(payload)
            elif kind == "chainmap":
                payload = collections.ChainMap(dict(payload))
            else:
                first = next(iter(payload.values()), 0)

                class _Inventing(dict):
                    def __missing__(self, key):
                        return first
                payload = _Inventing(payload)
        elif len(probe) > 4:
            # the previous payload object itself, changed in place
            if not isinstance(prev, dict):
                continue
            if payload[0] == "del":
                prev.pop(payload[1], None)
            elif payload[0] == "set":
                prev[payload[1]] = payload[2]
            payload = prev
        prev = payload
        decl = DECLS[m]
        if not isinstance(payload, dict):
            exp = False
        elif not check:
            exp = True
        else:
            exp = set(payload) == set(decl) and \
                all(isinstance(dict.get(payload, k), decl[k]) for k in decl)
        try:
            if timed:
                ev = TimedEvent(3.5, META[m], payload, check)
                ok_ts = ev.timestamp == 3.5
            else:
                ev = Event(META[m], payload, check)
                ok_ts = True
            got = True
            if (ev.content is not payload and len(probe) <= 4) or ev.event_type is not META[m] \
                    or not ok_ts:
                return ("event-fields", "event built from %r does not carry its "
                        "payload / type / timestamp" % (payload,))
        except EventError:
            got = False
        if got != exp:
            return ("metadata-validation",
                    "Event(type with metadata %s, payload %r, check=%s) was %s, "
                    "expected %s" % ({k: v.__name__ for k, v in decl.items()}, payload,
                                     check, "accepted" if got else "rejected",
                                     "accepted" if exp else "rejected"))
    return None


def execute(case):
    res = {"clean": True, "counters": {}}
    if case["kind"] == "metadata":
        f = check_metadata(case)
        res["counters"]["metadata_probes"] = len(case["probes"])
        res["nontrivial"] = False
        res["case_digest"] = 0
        res["digest"] = common.digest([case, f and f[0]])
    else:
        f = None
        w = World(case)
        ref = RefWorld(case)
        try:
            for i, op in enumerate(case["ops"]):
                w.apply_top(op)
                ref.apply_top(op)
                if w.log != ref.log:
                    j = next((k for k in range(min(len(w.log), len(ref.log)))
                              if w.log[k] != ref.log[k]), min(len(w.log), len(ref.log)))
                    f = ("delivery-log", "after op #%d %s the delivery log "
                         "(listener, type, content, timestamp) differs from the "
                         "reference at entry %d: producer %s, reference %s"
                         % (i, op, j, w.log[j:j + 3], ref.log[j:j + 3]))
                    break
                has = (w.ps[0].has_listeners(), w.ps[1].has_listeners())
                exp = (any(ref.subs.get(t) for t in ref.subs if t < 100),
                       any(ref.subs.get(t) for t in ref.subs if t >= 100))
                if has != exp:
                    f = ("has-listeners", "after op #%d %s has_listeners() == %r, "
                         "reference %r" % (i, op, has, exp))
                    break
        except Exception as e:
            f = ("unexpected-exception", "op #%d %s raised %s: %s"
                 % (i, op, type(e).__name__, e))
        res["counters"]["deliveries"] = len([x for x in ref.log if len(x) == 4])
        res["counters"]["fault:reentrant_mutation"] = ref.reentrant
        res["nontrivial"] = ref.reentrant > 0 and res["counters"]["deliveries"] > 0
        res["case_digest"] = common.digest8(case)
        res["digest"] = common.digest([case, w.log, f and f[0]])
        res["observed"] = {"log": ref.log[:12]}
    if f:
        res["status"] = "violation"
        res["check_id"], res["message"] = f
    else:
        res["status"] = "ok"
    return res


def case_size(case):
    if case["kind"] == "metadata":
        return {"probes": len(case["probes"])}
    return {"ops": len(case["ops"]), "scripts": len(case["scripts"])}


def shrink(case, fails):
    import copy
    case = copy.deepcopy(case)
    if case["kind"] == "metadata":
        case["probes"] = shr.ddmin(case["probes"],
                                   lambda p: fails(dict(case, probes=p)))
        return case
    case["ops"] = shr.ddmin(case["ops"], lambda o: fails(dict(case, ops=o)))
    for k in sorted(case["scripts"]):
        s2 = {a: b for a, b in case["scripts"].items() if a != k}
        if fails(dict(case, scripts=s2)):
            case["scripts"] = s2
    for k in sorted(case["scripts"]):
        sc = case["scripts"][k]
        sc2 = shr.ddmin(sc, lambda o: fails(dict(case, scripts=dict(case["scripts"], **{k: o}))))
        case["scripts"][k] = sc2
    return case
