"""C13 — seed updates depend only on stream name, seed and replication
number (across interpreter processes, listing orders), fallback for unlisted
streams, refused updates change nothing."""
import json
import os
import subprocess

from vf import common, c13child, shrink as shr, twothread

common.use_repo()
from pydsol.core.streams import (MersenneTwister, SimpleStreamUpdater,      # noqa: E402
                                 StreamSeedUpdater)

PROPERTY = "C13"
LEVEL = "exploration"
BUDGET = {"quick": 96, "thorough": 9600}
WALL_CAP = {"quick": 200, "thorough": 3000}
VIOLATION_IS_NONDETERMINISM = True
CHUNK = 2
BATCH = 150
RULE = ("one farm run = a batch of %d generated cases (1-5 named streams with "
        "original seeds, a seed table covering some of the streams, a replication "
        "number, updater in {SimpleStreamUpdater, StreamSeedUpdater}, the table given "
        "as dict / defaultdict(list) / dict with __missing__ / OrderedDict); every batch "
        "is evaluated in 6 child interpreters started with different "
        "PYTHONHASHSEED values (0, 1, 4242, two drawn from the seed, 'random') and "
        "in each with the stream dict listed forwards and backwards; seed() and the "
        "first draws of every stream must be identical across all 12 evaluations. "
        "In-process: unlisted streams are served by the fallback updater without "
        "exception and like SimpleStreamUpdater; listed streams get table[r]; "
        "refused updates (negative, float, str, None, beyond the table) raise and "
        "leave that stream's seed and next draws unchanged. 30 %% of the cases also run "
        "the two-thread layer (two threads, own updater and streams of the same, "
        "process-new names, update at once under seeded pre-emption inside streams.py; "
        "both must get the single-threaded seeds). non-trivial = the case "
        "has r > 0 and at least one stream served by the hash-based fallback; "
        "distinct = digest of the case" % BATCH)
COMPONENTS = {"real": ["pydsol.core.streams (SimpleStreamUpdater, StreamSeedUpdater, MersenneTwister) in 6 separate interpreter processes per batch"],
              "stub": ["threading.Thread.start / thread scheduling (baton scheduler, two-thread layer only)"]}
ASSUMPTIONS = ["two-thread layer: each thread has its own updater and its own streams (sharing one stream object between threads is not judged)",
               "process-level nondeterminism is controlled through PYTHONHASHSEED of child interpreters; 'random' lets the interpreter pick"]

NAMES = ["default", "arrivals", "service", "a", "b", "", "stream-1", "Stream 2",
         "ü", "x" * 40, "routing", "breakdown",
         # names beyond Latin-1 and beyond the basic multilingual plane
         "λ arrivals", "到着", "обслуживание", "queue-\U0001F600",
         # distinct names whose polynomial (x31) string hashes collide
         "Aa", "BB", "m1a", "m2B", "AaAa", "BBBB"]


def gen_case(rng):
    k = rng.randint(1, 5)
    names = rng.sample(NAMES, k)
    seeds = {n: rng.choice([0, 1, 10, 101, 12345, -3, 2 ** 40]) if rng.random() < 0.5
             else rng.randrange(10 ** 9) for n in names}
    updater = rng.choice(["simple", "table", "table"])
    r = rng.choice([0, 1, 1, 2, 3, 5, 10, 99, 1000])
    table = {}
    if updater == "table":
        for n in names:
            if rng.random() < 0.55:
                ln = rng.choice([r + 1, r + 1, r + 3, 20, 1001])
                table[n] = [rng.randrange(10 ** 9) for _ in range(min(ln, 1001))]
        # sometimes a table that is too short for r (whole update refused)
        if table and rng.random() < 0.08:
            n = rng.choice(sorted(table))
            table[n] = table[n][:max(0, min(len(table[n]), r))]
    case = {"names": names, "seeds": seeds, "updater": updater, "table": table, "r": r}
    if rng.random() < 0.15:
        # the same stream object is registered under further ids (e.g. "default" and
        # "arrivals" share one generator): whatever the updater does with it must
        # not depend on the process (compared for equal listing order only)
        alias = []
        for k in range(rng.randint(1, 3)):
            new = "alias%d" % k
            alias.append([new, rng.choice(names)])
            if updater == "table" and rng.random() < 0.5:
                table[new] = [rng.randrange(10 ** 9) for _ in range(r + 2)]
        case["alias"] = alias
    if updater == "table" and rng.random() < 0.3:
        case["custom_fallback"] = True   # refusals are also tried with a permissive user fallback
    if rng.random() < 0.25:
        case["name_subclass"] = True     # names also given as a str subclass with its own __str__
    if rng.random() < 0.3:
        case["tt_seed"] = rng.getrandbits(48)      # also run the two-thread layer
    if updater == "table" and rng.random() < 0.3:
        # any dict is accepted as a seed table, also ones whose [] differs from get()
        case["table_type"] = rng.choice(["defaultdict", "defaultdict", "missing", "ordered"])
    return case


def generate(seed, tier, idx=0):
    rng = common.rng_for(seed, "case")
    cases = [gen_case(rng) for _ in range(BATCH)]
    hs = ["0", "1", "4242", str(rng.randrange(1, 2 ** 32 - 1)),
          str(rng.randrange(1, 2 ** 32 - 1)), "random"]
    return {"cases": cases, "hashseeds": hs}


def run_child(cases, hashseed):
    env = dict(os.environ)
    env["PYTHONHASHSEED"] = hashseed
    env["PYTHONWARNINGS"] = "ignore"
    p = subprocess.run([common.PYTHON] + common.py_flags() + ["-m", "vf.c13child"], input=json.dumps(cases),
                       capture_output=True, text=True, cwd=common.VERIF_DIR, env=env,
                       timeout=300)
    if p.returncode != 0:
        raise RuntimeError("child failed: " + p.stderr[-400:])
    return json.loads(p.stdout)


def init_worker():
    import pydsol.core.streams as _streamsmod
    twothread.install(_streamsmod)


def two_threads(case):
    """Two threads of one process (parallel replications), each with its own
    updater and its own streams of the same names, update their seeds at the same
    time under seeded pre-emption inside streams.py: both must end up with what a
    single thread gets.  Names are unique to the case, so that they are new to
    the process (a memo per name would otherwise hide a first-use window)."""
    tag = "-%s" % common.digest8([case["names"], case["seeds"], case["r"], "tt"])
    names = [n + tag for n in case["names"]]
    seeds = {n + tag: case["seeds"][n] for n in case["names"]}
    items = [(n + tag, v) for n, v in case["table"].items()]
    r = case["r"]

    def world():
        streams = {n: MersenneTwister(seeds[n]) for n in names}
        upd = SimpleStreamUpdater() if case["updater"] == "simple" \
            else StreamSeedUpdater(c13child.make_table(case, items))
        return streams, upd

    def outcome(streams, upd):
        try:
            upd.update_seeds(streams, r)
        except (ValueError, TypeError) as e:
            return "refused:" + type(e).__name__
        return None

    def seeds_of(streams):
        return {n: streams[n].seed() for n in names}
    sa, ua = world()
    sb, ub = world()
    res = {}
    sched = {"seed": case.get("tt_seed", 0), "p": [0.05, 0.15, 0.3][case["r"] % 3],
             "d": [2, 4, 8, 20][len(names) % 4]}
    init_worker()          # (idempotent; the shrinker evaluates in forks of the parent)
    det, errors = twothread.run_two(sched, lambda: res.__setitem__("a", outcome(sa, ua)),
                                    lambda: res.__setitem__("b", outcome(sb, ub)))
    if det.aborted:
        return ("harness", "two-thread run aborted: %s" % det.aborted)
    if errors:
        return ("seed-depends-on-thread-timing", "updating seeds in two threads raised %s: %s"
                % (errors[0][1], errors[0][2]))
    sc, uc = world()
    exp_out = outcome(sc, uc)
    exp = seeds_of(sc)
    for who, st in (("a", sa), ("b", sb)):
        if res.get(who) != exp_out or seeds_of(st) != exp:
            diff = {n: (seeds_of(st)[n], exp[n]) for n in names if seeds_of(st)[n] != exp[n]}
            return ("seed-depends-on-thread-timing",
                    "two threads updated the seeds of their own streams %s for replication "
                    "%d at the same time (%d thread switches inside streams.py): thread %s "
                    "got {stream: (seed, single-threaded seed)} = %s (outcome %s, "
                    "single-threaded %s)" % (names, r, det.n_switch, who, diff, res.get(who),
                                             exp_out))
    return None


class StreamName(str):
    """A stream name that is a str (equal to, hashing like and iterating like its
    text) but prints differently - what a (str, Enum) member does."""

    def __str__(self):
        return "StreamName." + str.upper(self)

    __repr__ = __str__

    def __format__(self, spec):
        return format(self.__str__(), spec)


def name_forms(case):
    """The same experiment with its stream names given as plain str and as a str
    subclass with its own __str__: the seeds may only depend on the name."""
    if not case.get("name_subclass"):
        return None
    names = case["names"]
    r = case["r"]
    out = []
    for wrap in (str, StreamName):
        streams = {wrap(n): MersenneTwister(case["seeds"][n]) for n in names}
        table = c13child.make_table(case, list(case["table"].items()))
        upd = SimpleStreamUpdater() if case["updater"] == "simple" else StreamSeedUpdater(table)
        try:
            upd.update_seeds(streams, r)
            out.append({str.__str__(k): s.seed() for k, s in streams.items()})
        except (ValueError, TypeError) as e:
            out.append("refused:" + type(e).__name__)
    if out[0] != out[1]:
        return ("seed-depends-on-name-object", "the same streams %s, replication %d: with plain "
                "str names the seeds are %s, with names of a str subclass that overrides "
                "__str__ (equal, same hash, same characters) they are %s"
                % (names, r, out[0], out[1]))
    return None


def in_process(case):
    """fallback, table semantics and refusal atomicity for one case."""
    names = case["names"]
    streams = {n: MersenneTwister(case["seeds"][n]) for n in names}
    table = c13child.make_table(case, list(case["table"].items()))
    r = case["r"]
    if case["updater"] == "table":
        upd = StreamSeedUpdater(table)
        simple = SimpleStreamUpdater()
        for n in names:
            st = streams[n]
            if n in table:
                if r < len(table[n]):
                    upd.update_seed(n, st, r)
                    if st.seed() != table[n][r]:
                        return ("table-seed", "stream %r, replication %d: seed %r, table "
                                "says %r" % (n, r, st.seed(), table[n][r]))
                continue
            twin = MersenneTwister(case["seeds"][n])
            simple.update_seed(n, twin, r)
            try:
                upd.update_seed(n, st, r)
            except Exception as e:
                return ("fallback-not-used", "StreamSeedUpdater.update_seed(%r, ..., %d) "
                        "for a stream without a seed list raised %s instead of using "
                        "the fallback updater" % (n, r, type(e).__name__))
            if st.seed() != twin.seed():
                return ("fallback-not-used", "unlisted stream %r got seed %r, the "
                        "fallback updater gives %r" % (n, st.seed(), twin.seed()))
    else:
        upd = SimpleStreamUpdater()
    # the result may not depend on what the updater instance served before
    # (e.g. an earlier experiment with the same stream names and other seeds)
    used = SimpleStreamUpdater() if case["updater"] == "simple" else StreamSeedUpdater(table)
    for n in names:
        other = MersenneTwister(case["seeds"][n] + 12345)
        try:
            used.update_seed(n, other, max(0, r - 1))
            used.update_seed(n, other, r)
        except (ValueError, TypeError):
            pass
    for n in names:
        a = MersenneTwister(case["seeds"][n])
        b = MersenneTwister(case["seeds"][n])
        fresh = SimpleStreamUpdater() if case["updater"] == "simple" else StreamSeedUpdater(table)
        try:
            fresh.update_seed(n, b, r)
        except (ValueError, TypeError):
            continue
        try:
            used.update_seed(n, a, r)
        except Exception as e:
            return ("seed-depends-on-updater-history", "an updater that served another "
                    "experiment before raised %s for stream %r" % (type(e).__name__, n))
        if a.seed() != b.seed():
            return ("seed-depends-on-updater-history", "stream %r (original seed %d), "
                    "replication %d: an updater that had served another stream of that name "
                    "before gives seed %r, a fresh updater gives %r"
                    % (n, case["seeds"][n], r, a.seed(), b.seed()))
    # refused updates change nothing
    if case["updater"] == "table" and case.get("custom_fallback"):
        # a user-written fallback that does not validate the replication number: the
        # table updater itself must refuse a negative / ill-typed one
        from pydsol.core.streams import StreamUpdater

        class _Permissive(StreamUpdater):
            def update_seed(self, stream_id, stream, replication_nr):
                stream.set_seed(stream.original_seed() + 17 * int(replication_nr or 0))
        upd.set_fallback_stream_updater(_Permissive())
    for bad in (-1, -5, 1.0, "1", None):
        for n in names:
            st = MersenneTwister(case["seeds"][n])
            st.next_float()
            before_seed = st.seed()
            tok = st.save_state()
            nxt = MersenneTwister(case["seeds"][n])
            nxt.next_float()
            expect = [nxt.next_float() for _ in range(3)]
            try:
                upd.update_seed(n, st, bad)
                return ("bad-replication-accepted", "update_seed(%r, stream, %r) was "
                        "accepted" % (n, bad))
            except (TypeError, ValueError):
                pass
            except KeyError:
                pass
            got = [st.next_float() for _ in range(3)]
            if st.seed() != before_seed or got != expect:
                return ("refused-update-changed-stream", "refused update_seed(%r, "
                        "stream, %r) changed the stream (seed %r -> %r)"
                        % (n, bad, before_seed, st.seed()))
    if case["updater"] == "table":
        for n in table:
            if n not in case["seeds"]:
                continue            # (ids of aliased streams)
            st = MersenneTwister(case["seeds"][n])
            before = st.seed()
            try:
                upd.update_seed(n, st, len(table[n]))
                return ("beyond-table-accepted", "replication %d beyond the seed list "
                        "of %r (length %d) was accepted" % (len(table[n]), n, len(table[n])))
            except ValueError:
                pass
            except IndexError:
                pass
            if st.seed() != before:
                return ("refused-update-changed-stream", "refused update beyond the seed "
                        "list changed the seed of %r" % n)
    return None


def execute(case):
    cnt = {}
    cases = case["cases"]
    finding = None
    fail_case = None
    n_eval = 0
    digs = []
    results = []
    for hs in case["hashseeds"]:
        results.append(run_child(cases, hs))
        cnt["fault:hashseed"] = cnt.get("fault:hashseed", 0) + 1
    for i, c in enumerate(cases):
        n_eval += 1
        for k, res in enumerate(results):
            for o in (0, 1):
                # (with aliased streams the listing order legitimately matters:
                # compare equal orders only)
                base = results[0][i][o if c.get("alias") else 0]
                if res[i][o] != base and finding is None:
                    diff = [n for n in c["names"] if isinstance(base, dict) and
                            isinstance(res[i][o], dict) and base.get(n) != res[i][o].get(n)]
                    finding = ("seed-depends-on-process-or-order",
                               "case %d: streams %s get different seeds/draws with "
                               "PYTHONHASHSEED=%s%s than with PYTHONHASHSEED=%s: %s vs %s"
                               % (i, diff or "?", case["hashseeds"][k],
                                  " (dict listed backwards)" if o else "",
                                  case["hashseeds"][0],
                                  {n: (res[i][o].get(n) or [None])[0] for n in diff} if diff else res[i][o],
                                  {n: (base.get(n) or [None])[0] for n in diff} if diff else base))
                    fail_case = {"cases": [c], "hashseeds": [case["hashseeds"][0], case["hashseeds"][k]]}
        if finding is None:
            f = in_process(c)
            if f is None:
                f = name_forms(c)
            if f is None and c.get("tt_seed") is not None:
                f = two_threads(c)
                cnt["layer:two_threads"] = cnt.get("layer:two_threads", 0) + 1
            if f:
                finding = f
                fail_case = {"cases": [c], "hashseeds": case["hashseeds"][:2]}
        fb = c["updater"] == "simple" or any(n not in c["table"] for n in c["names"])
        if c["r"] > 0 and fb:
            digs.append(common.digest8(c))
        if finding:
            break
    cnt["fault:listing_order"] = len(case["hashseeds"]) * 2
    cnt["child_interpreters"] = len(case["hashseeds"])
    res = {"clean": True, "counters": cnt, "evaluations": max(n_eval, 1),
           "nontrivial_digests": digs, "nontrivial": False, "case_digest": 0,
           "digest": common.digest([results[0][:3], finding]),
           "observed": {"first_case": cases[0], "result": results[0][0][0]}}
    if finding:
        res["status"] = "violation"
        res["check_id"], res["message"] = finding
        res["fail_case"] = fail_case
    else:
        res["status"] = "ok"
    return res


def case_size(case):
    return {"cases": len(case["cases"]), "children": len(case["hashseeds"])}


def shrink(case, fails):
    import copy
    case = copy.deepcopy(case)
    if len(case["cases"]) == 1:
        c = case["cases"][0]
        names = shr.one_by_one(c["names"], lambda ns: len(ns) > 0 and fails(
            dict(case, cases=[dict(c, names=ns)])))
        c["names"] = names
    return case
