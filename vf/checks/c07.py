"""C07 — end-to-end reproducibility: a run is a function of model, seeds and
settings — across interpreter processes, hash seeds, object identities,
creation counters, wall-clock speed, thread schedule and pause points."""
import json
import os
import subprocess

from vf import common, program

PROPERTY = "C07"
LEVEL = "exploration"
BUDGET = {"quick": 16, "thorough": 1600}
WALL_CAP = {"quick": 200, "thorough": 3300}
VIOLATION_IS_NONDETERMINISM = True
CHUNK = 1
BATCH = 12
RULE = ("one farm run = a batch of %d generated stochastic model programs (handlers "
        "draw delays and observations from 12 distribution types on 1-3 shared seeded "
        "MersenneTwister streams, fire user event types to 2-4 listeners each with "
        "default identity hash; listeners draw from the same streams, schedule events "
        "and observe into simulation statistics) executed in 10 child interpreters, "
        "one per perturbation: PYTHONHASHSEED in {0, 1, 4242, seed-drawn, random}, "
        "SimEvent id offset (10^n earlier events), heap noise (garbage allocated first "
        "so object addresses differ), unrelated EventTypes created first, gc off, "
        "thread schedule seed and virtual-time speed of the baton scheduler, and pause "
        "pattern (none / k steps / pauses requested by handlers / stop() by the caller thread at seeded points of the run thread / stop() from a TIME_CHANGED listener). Oracle: the digest of "
        "(executed events with clocks, user-event deliveries, every draw, every "
        "statistics getter as hex float, final state) is identical in all 10 children; "
        "the simulator notification stream is additionally identical among children "
        "with the same pause pattern. non-trivial = a model with at least 2 listeners "
        "on one type and at least 5 draws; distinct = digest of the model" % BATCH)
COMPONENTS = {
    "real": ["all of pydsol.core used by a stochastic DEVS model: simulator + run thread, eventlist, simevent, pubsub, streams, distributions, statistics, model, experiment — in 8 separate interpreter processes per batch"],
    "stub": ["threading.Event/Lock (cooperative)", "time.time/sleep (virtual clock)",
             "stdout/stderr/logging (sunk)"]}
ASSUMPTIONS = ["float clock; START/STOP/TIME_CHANGED notifications legitimately depend on where a run is paused, so the simulator notification stream is compared only among children with the same pause pattern"]

DIST_POOL = [
    ("Exponential", [1.0]), ("Exponential", [0.3]), ("Uniform", [0.0, 2.0]),
    ("Triangular", [0.0, 1.0, 3.0]), ("Normal", [1.0, 0.5]), ("Erlang", [0.5, 3]),
    ("Erlang", [0.2, 12]), ("Gamma", [0.7, 1.0]), ("Gamma", [2.5, 0.4]),
    ("Weibull", [1.5, 1.0]), ("DiscreteUniform", [0, 3]), ("Poisson", [2.0]),
    ("Bernoulli", [0.4]), ("LogNormal", [0.0, 0.5]), ("Beta", [2.0, 3.0]),
]
KINDS = ["counter", "tally", "wtally", "persistent"]


def gen_model(rng):
    prog = program.gen_program(rng, clock="float",
                               n_events=rng.choice([3, 5, 8, 12, 20]),
                               p_cancel=0.05, p_abs=0.35, p_pre=0.6)
    n_streams = rng.randint(1, 3)
    dists = []
    for _ in range(rng.randint(2, 5)):
        name, params = rng.choice(DIST_POOL)
        dists.append([name, params, rng.randrange(n_streams)])
    stats = [{"kind": rng.choice(KINDS), "via": rng.choice(["direct", "event", "event2", "event_ctor"])}
             for _ in range(rng.randint(1, 3))]
    n_types = rng.randint(1, 3)
    listeners = []
    for t in range(n_types):
        for _ in range(rng.randint(2, 4)):
            script = []
            for _ in range(rng.randint(1, 3)):
                r = rng.random()
                if r < 0.4:
                    script.append(["draw", rng.randrange(len(dists))])
                elif r < 0.75:
                    script.append(["sched_leaf", rng.randrange(len(dists)),
                                   rng.choice(program.PRIOS)])
                else:
                    script.append(["obs", rng.randrange(len(stats)), rng.randrange(len(dists))])
            listeners.append([t, script])
    rng.shuffle(listeners)
    # turn deterministic delays into drawn ones and sprinkle fires / observations
    lists = [prog["roots"]] + [prog["events"][e] for e in program.event_ids(prog)]
    for al in lists:
        for i, a in enumerate(al):
            if a[0] == "rel" and rng.random() < 0.6:
                al[i] = ["rel_draw", rng.randrange(len(dists)), a[2], a[3]]
        for _ in range(rng.choice([0, 1, 1, 2])):
            r = rng.random()
            if r < 0.5:
                al.insert(rng.randint(0, len(al)),
                          ["fire", rng.randrange(n_types), rng.randint(0, 99)])
            else:
                al.insert(rng.randint(0, len(al)),
                          ["obs_draw", rng.randrange(len(stats)), rng.randrange(len(dists))])
    model = {"program": prog, "strategy": 3, "stats": stats, "dists": dists,
             "listeners": listeners, "leaf_obs": rng.choice([None, 0, 1]),
             "stream_seeds": [rng.choice([0, 0, -1, 2 ** 63]) if rng.random() < 0.15
                              else rng.randrange(1, 10 ** 9) for _ in range(n_streams)],
             "probe": False}
    if rng.random() < 0.3:
        # one more stream: the default stream of a StreamInformation() made in
        # construct_model (documented: a fresh stream with seed 10)
        model["default_stream_info"] = True
    if rng.random() < 0.3:
        # streams registered under ids (one generator may serve several ids), seeds
        # of the replication set by an updater in construct_model
        ids = ["default", "arrivals", "service", "routing", "a", "b"]
        names = [[ids[k], rng.randrange(n_streams)]
                 for k in range(rng.randint(2, min(6, n_streams + 3)))]
        r = rng.choice([1, 2, 3, 7])
        table = None
        if rng.random() < 0.7:
            table = {n: [rng.randrange(10 ** 9) for _ in range(r + 1)]
                     for n, _ in names if rng.random() < 0.5}
        model["seed_update"] = {"names": names, "table": table, "r": r}
    return model


def generate(seed, tier, idx=0):
    rng = common.rng_for(seed, "case")
    models = [gen_model(rng) for _ in range(BATCH)]
    s1 = rng.randrange(1, 2 ** 32 - 1)
    perturbs = [
        {"hashseed": "0", "pause": "none"},
        {"hashseed": "1", "pause": "none", "id_offset": 10 ** 3, "heap_noise": 20000,
         "prior_library_use": 7},
        {"hashseed": "4242", "pause": "none", "gc_off": True, "prior_events": 50,
         "sched": {"kind": "pct", "seed": s1, "p": 0.02, "d": 3, "step_cost_us": 10}},
        {"hashseed": str(s1), "pause": "none", "id_offset": 10 ** 6, "heap_noise": 333,
         "sched": {"kind": "site", "seed": s1 + 1, "q": 0.2, "p": 0.0, "d": 3,
                   "step_cost_us": 100}},
        {"hashseed": "random", "pause": "steps", "k": rng.randint(1, 6), "heap_noise": 5000},
        {"hashseed": "7", "pause": "steps", "k": rng.randint(1, 6), "id_offset": 17,
         "prior_library_use": 3},
        {"hashseed": "random", "pause": "pauses",
         "pause_at": sorted(set(rng.randint(1, 12) for _ in range(3)))},
        {"hashseed": "99", "pause": "pauses", "pause_at": [1, 2, 3], "gc_off": True,
         "sched": {"kind": "pct", "seed": s1 + 2, "p": 0.01, "d": 2, "step_cost_us": 1}},
        {"hashseed": "5", "pause": "driver_stops",
         "sleeps": [rng.choice([0.0002, 0.0005, 0.001, 0.002, 0.004]) for _ in range(3)],
         "sched": {"kind": rng.choice(["pct", "site"]), "seed": s1 + 3, "p": 0.02, "q": 0.3,
                   "d": 3, "step_cost_us": rng.choice([10, 100])}},
        {"hashseed": "random", "pause": "listener_stops",
         "occurrences": sorted(set(rng.randint(1, 8) for _ in range(3)))},
    ]
    return {"models": models, "perturbs": perturbs}


def run_child(models, perturb):
    env = dict(os.environ)
    env["PYTHONHASHSEED"] = perturb.get("hashseed", "0")
    env["PYTHONWARNINGS"] = "ignore"
    env["PYTHONDONTWRITEBYTECODE"] = "1"
    p = subprocess.run([common.PYTHON] + common.py_flags() + ["-m", "vf.c07child"],
                       input=json.dumps({"models": models, "perturb": perturb}),
                       capture_output=True, text=True, cwd=common.VERIF_DIR, env=env,
                       timeout=600)
    if p.returncode != 0 or not p.stdout.strip():
        raise RuntimeError("c07 child failed (rc %s): %s" % (p.returncode, p.stderr[-600:]))
    return json.loads(p.stdout)


def execute(case):
    cnt = {}
    models = case["models"]
    perturbs = case["perturbs"]
    results = []
    try:
        for pt in perturbs:
            results.append(run_child(models, pt))
    except Exception as e:
        return {"status": "harness", "check_id": "harness", "message": str(e)[:500],
                "clean": True, "counters": cnt, "nontrivial": False, "case_digest": 0}
    finding = None
    fail_case = None
    digs = []
    n_eval = 0
    for k in ("hashseed", "id_offset", "heap_noise", "gc_off", "prior_events", "sched"):
        cnt["fault:" + k] = sum(1 for p in perturbs if p.get(k))
    cnt["fault:pause_pattern"] = sum(1 for p in perturbs if p.get("pause") != "none")
    cnt["child_interpreters"] = len(perturbs)
    for i, m in enumerate(models):
        row = [r[i] if i < len(r) else None for r in results]
        n_eval += 1
        if finding:
            break
        base = row[0]
        for k, r in enumerate(row):
            if r is None:
                finding = ("run-not-completed", "model %d: child %d (%s) stopped before "
                           "this model" % (i, k, perturbs[k]))
                break
            if r["aborted"] or r["errors"]:
                finding = ("run-failed", "model %d in child %d (%s): aborted=%s errors=%s"
                           % (i, k, perturbs[k], r["aborted"], r["errors"]))
                break
            if r["core"] != base["core"]:
                finding = ("not-reproducible",
                           "model %d: executed events / deliveries / draws / statistics "
                           "differ between child 0 (%s: %d handlers, %d deliveries, %d "
                           "draws, final %s) and child %d (%s: %d handlers, %d deliveries, "
                           "%d draws, final %s)"
                           % (i, perturbs[0], base["n_exe"], base["n_user"], base["n_draw"],
                              base["final"], k, perturbs[k], r["n_exe"], r["n_user"],
                              r["n_draw"], r["final"]))
                break
        if not finding:
            groups = {}
            for k, r in enumerate(row):
                groups.setdefault(json.dumps([perturbs[k].get("pause"), perturbs[k].get("k"),
                                              perturbs[k].get("pause_at")]), []).append((k, r))
            # identical pause pattern -> identical simulator notification stream
            for g in groups.values():
                for k, r in g[1:]:
                    if r["full"] != g[0][1]["full"]:
                        finding = ("notification-stream-differs",
                                   "model %d: the simulator notification stream differs "
                                   "between children %d and %d with the same pause pattern"
                                   % (i, g[0][0], k))
            none = [(k, r) for k, r in enumerate(row) if perturbs[k].get("pause") == "none"]
            for k, r in none[1:]:
                if r["full"] != none[0][1]["full"] and not finding:
                    finding = ("notification-stream-differs",
                               "model %d: the simulator notification stream of an "
                               "uninterrupted run differs between child %d (%s) and child "
                               "%d (%s)" % (i, none[0][0], perturbs[none[0][0]], k, perturbs[k]))
        if finding:
            fail_case = {"models": [m], "perturbs": perturbs}
        by_type = {}
        for t, _ in m["listeners"]:
            by_type[t] = by_type.get(t, 0) + 1
        if max(by_type.values()) >= 2 and base and base["n_draw"] >= 5:
            digs.append(common.digest8(m))
        if base:
            cnt["probe:handlers_executed"] = cnt.get("probe:handlers_executed", 0) + base["n_exe"]
            cnt["probe:user_event_deliveries"] = cnt.get("probe:user_event_deliveries", 0) + base["n_user"]
            cnt["probe:random_draws"] = cnt.get("probe:random_draws", 0) + base["n_draw"]
    res = {"clean": True, "counters": cnt, "evaluations": max(n_eval, 1),
           "nontrivial_digests": digs, "nontrivial": False, "case_digest": 0,
           "digest": common.digest([[r[0]["core"] if r else None for r in results],
                                    finding and finding[0]]),
           "observed": {"model0": {"n_exe": results[0][0]["n_exe"],
                                   "n_user": results[0][0]["n_user"],
                                   "n_draw": results[0][0]["n_draw"],
                                   "final": results[0][0]["final"]},
                        "perturbations": perturbs}}
    if finding:
        res["status"] = "violation"
        res["check_id"], res["message"] = finding
        res["fail_case"] = fail_case
    else:
        res["status"] = "ok"
    return res


def case_size(case):
    return {"models": len(case["models"]), "children": len(case["perturbs"])}


def shrink(case, fails):
    import copy
    case = copy.deepcopy(case)
    if len(case["models"]) != 1:
        return case
    # fewer children: keep child 0 and one other that still shows the difference
    for k in range(len(case["perturbs"]) - 1, 0, -1):
        c = dict(case, perturbs=[case["perturbs"][0], case["perturbs"][k]])
        if fails(c):
            case = c
            break
    m = case["models"][0]
    prog = m["program"]
    changed = True
    while changed:
        changed = False
        for eid in sorted(prog["events"], key=int, reverse=True):
            if eid not in prog["events"]:
                continue
            p2 = program.remove_event(prog, eid)
            c = copy.deepcopy(case)
            c["models"][0]["program"] = p2
            if fails(c):
                prog = p2
                case = c
                changed = True
    return case
