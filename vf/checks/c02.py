"""C02 — DEVS execution: each scheduled event runs exactly once, in
time/priority order; clock sane; illegal requests refused."""
from vf import common, program, simrun, devscommon, shrink as shr

PROPERTY = "C02"
LEVEL = "exploration"
BUDGET = {"quick": 40000, "thorough": 4000000}
WALL_CAP = {"quick": 150, "thorough": 3000}
CHUNK = 250
RULE = ("one case = a generated model program (forest of handlers that "
        "schedule now/rel/abs with priorities, cancel, and issue illegal "
        "requests) on a float, int or Duration clock, run to the end by one "
        "start() on the real simulator and its real run thread under the "
        "baton scheduler (2/3 run-to-block, 1/3 seeded pre-emption / virtual "
        "time speed); non-trivial = at least 3 handlers executed AND (an "
        "exact time tie between executed events OR a cancel that removed a "
        "pending event OR a refused request); distinct = distinct program "
        "digests")
COMPONENTS = {
    "real": ["pydsol.core.simulator (DEVSSimulator*, SimulatorWorkerThread on a real OS thread)",
             "pydsol.core.eventlist", "pydsol.core.simevent", "pydsol.core.pubsub",
             "pydsol.core.model", "pydsol.core.experiment", "pydsol.core.units.Duration"],
    "stub": ["threading.Event/Lock (cooperative)", "time.time/sleep (virtual clock)",
             "stdout/stderr/logging (sunk)"]}
ASSUMPTIONS = ["sizes are swarm-varied: about 1 % of the programs are large (120 or 300 events)",
               
    "RefDEVS (vf/models/refdevs.py) is the intended semantics: next = min by (time, -priority, scheduling order)",
    "times on a dyadic grid so float arithmetic is exact; priorities 1..10",
    "the exception class of a refusal is not judged",
]
MY_CHECKS = {"trace-mismatch", "clock-backwards", "illegal-request-accepted",
             "refused-request-changed-pending", "legal-request-refused",
             "accepted-request-not-pending", "cancel-outcome", "final-clock",
             "no-quiescence", "harness"}


def init_worker():
    simrun.install()


def generate(seed, tier, idx=0):
    rng = common.rng_for(seed, "case")
    prog = program.gen_program(
        rng, n_events=rng.choice([120, 300]) if rng.random() < 0.01 else None,
        p_cancel=rng.choice([0.0, 0.1, 0.2, 0.35]),
        p_bad=rng.choice([0.0, 0.0, 0.1, 0.25]),
        p_abs=rng.choice([0.1, 0.2, 0.4]))
    case = {"program": prog, "strategy": 3,
            "commands": [["initialize"], ["start"], ["settle"]]}
    if rng.random() < 0.08:
        # the process has created a lot of events before: the id counter is just below
        # a word-size boundary when the model is built
        case["id_offset"] = rng.choice([2 ** 31, 2 ** 32, 2 ** 63, 2 ** 64]) - rng.randint(1, 12)
    r = rng.random()
    if r < 0.67:
        case["sched"] = {"kind": "S0"}
    elif r < 0.85:
        case["sched"] = {"kind": "pct", "seed": seed, "p": rng.choice([0.02, 0.005]),
                         "d": rng.choice([1, 2, 3]),
                         "step_cost_us": rng.choice([0, 1, 10, 100])}
    else:
        case["sched"] = {"kind": "site", "seed": seed, "q": 0.15, "p": 0.0,
                         "d": rng.choice([1, 2, 3]),
                         "step_cost_us": rng.choice([0, 10])}
    return case


def execute(case):
    r = simrun.Runner(case).run()
    findings, info = devscommon.evaluate_sequential(case, r)
    ref = info.get("ref")
    H = r.hist.H
    if ref is not None and not findings:
        fin = r.final
        if fin[2] != r.ref_time(ref.end):
            findings.append(("final-clock", "final clock %s, replication end %s"
                             % (fin[2], r.ref_time(ref.end))))
    findings = [f for f in findings if f[0] in MY_CHECKS]
    res = {"digest": r.digest(), "clean": r.clean,
           "final_case": devscommon.replay_form(case, r),
           "case_digest": common.digest8(case["program"]),
           "counters": {}, "sums": {}, "sets": {}}
    cnt = res["counters"]
    cnt["clock:" + case["program"]["clock"]] = 1
    if ref is not None:
        tr = [x for x in ref.trace]
        times = [t for t, _ in tr]
        tie = len(set(times)) < len(times)
        removed = any(q[2] == "removed" for q in ref.requests)
        refused = any(q[2] == "refused" for q in ref.requests)
        res["nontrivial"] = len(tr) >= 3 and (tie or removed or refused)
        cnt["probe:executed_events"] = len(tr)
        cnt["probe:time_ties"] = 1 if tie else 0
        cnt["probe:cancel_removed_pending"] = sum(1 for q in ref.requests if q[2] == "removed")
        cnt["probe:cancel_of_absent"] = sum(1 for q in ref.requests if q[2] == "absent")
        cnt["probe:refused_requests"] = sum(1 for q in ref.requests if q[2] == "refused")
        res["sums"]["sim_model_time"] = float(ref.end - ref.start)
        res["observed"] = {"trace": tr[:12]}
    devscommon.detsim_stats(res, case, r)
    if findings:
        res["status"] = "violation"
        res["check_id"], res["message"] = findings[0]
        if findings[0][0] == "harness":
            res["status"] = "harness"
    else:
        res["status"] = "ok"
    return res


def case_size(case):
    p = case["program"]
    return {"events": len(p["events"]),
            "actions": len(p["roots"]) + sum(len(a) for a in p["events"].values())}


def shrink(case, fails):
    return shr.shrink_devs_case(case, fails)
