"""C04 — simulator lifecycle: commands, states and notifications follow the
protocol, also when a command overlaps the run thread's own transitions."""
import itertools
import math

from vf import common, program, simrun, devscommon, lifecycle, shrink as shr
from vf.models.refdevs import OK

PROPERTY = "C04"
LEVEL = "exploration"
BUDGET = {"quick": 48000, "thorough": 6000000}
WALL_CAP = {"quick": 260, "thorough": 3300}
CHUNK = 250
RULE = ("layer (a): command sequences issued at quiescence — every sequence of "
        "length <= 4 (thorough tier: <= 5) over {initialize,start,step,stop,run_up_to(mid),"
        "run_up_to_including(mid),cleanup,end_replication} on a fixed program "
        "(enumerated, indices below N_EXH) plus seeded random sequences of "
        "length 1-12 with arguments drawn relative to pending event times (8 % "
        "of the initialize commands are preceded by one whose construct_model "
        "raises), compared in lock-step with the lifecycle reference; layer (b): "
        "overlap — unsettled command scripts (start/stop/step/bounded runs/"
        "poll/sleep/initialize), commands issued from handlers and from "
        "listeners of chosen notification types, nested second simulators run "
        "from handlers, and four directed shapes (pause -> caller polls -> "
        "step whose handler ends the replication; stalled start then stop; "
        "pause -> end_replication -> cleanup/initialize at once; start/stop "
        "alternation), executed with the real run thread under seeded "
        "pre-emption at line granularity and, in a fifth of the runs, at "
        "bytecode granularity (S-pct, S-site, budget per run or per command, "
        "virtual-time speed, oversleep, eager pollers; stalls and wall-clock "
        "jumps mostly in the thorough tier), judged by stream grammar, quiescent-state invariants, "
        "consequences of accepted commands, after-end behaviour and "
        "exactly-once trace after a drain. non-trivial = (a) at least one "
        "accepted start-like command and one refused command, or (b) at least "
        "one accepted start-like command and at least one context switch "
        "inside a command; distinct = digest of (program, commands, callback "
        "plan, switch-site sequence)")
COMPONENTS = {
    "real": ["pydsol.core.simulator (Simulator, DEVSSimulator*, SimulatorWorkerThread on a real OS thread)",
             "pydsol.core.pubsub", "pydsol.core.eventlist", "pydsol.core.simevent",
             "pydsol.core.model", "pydsol.core.experiment"],
    "stub": ["threading.Event/Lock (cooperative, _cond._waiters emulated)",
             "time.time/sleep (virtual clock)", "stdout/stderr/logging (sunk)"]}
ASSUMPTIONS = [
    "one caller thread; commands also from handlers and listeners; no second concurrent caller",
    "pre-emption at line granularity of simulator.py and pubsub.py",
    "the three 1-second grace loops are best-effort waits: a command that merely returns before the run thread reacted is not judged; only the following quiescence is",
    "not generated: cleanup() from a handler, end_replication() before the first start/step or after ENDED, event-list mutation by the caller while running",
]

ALPHA = ["initialize", "start", "step", "stop", "run_up_to", "run_up_to_incl",
         "cleanup", "end_replication"]
FIXED_PROGRAM = {
    "clock": "float", "rep": [0.0, 2.0, 10.0],
    "roots": [["rel", 1, 1, 5], ["rel", 3, 2, 5], ["abs", 10.0, 5, 5]],
    "events": {"1": [["rel", 1, 3, 5]], "2": [["rel", 4, 4, 5]], "3": [],
               "4": [["rel", 20, 6, 5]], "5": [], "6": []}}
EXH_LEN = {"quick": 4, "thorough": 5}
_EXH = {}


def exhaustive_sequences(tier):
    if tier not in _EXH:
        _EXH[tier] = []
        for n in range(1, EXH_LEN[tier] + 1):
            _EXH[tier].extend(itertools.product(range(len(ALPHA)), repeat=n))
    return _EXH[tier]


def n_exh(tier):
    return sum(len(ALPHA) ** n for n in range(1, EXH_LEN[tier] + 1))


N_EXH = n_exh("quick")


def init_worker():
    simrun.install()


# ---------------------------------------------------------------------------
# generation

def _arg_for(rng, ref, name):
    """A bound for run_up_to*: relative to the pending event times of the
    reference (before / at / between / after), mostly inside [clock, end]."""
    times = sorted(set(t for t in ref.pending_times() if ref.clock <= t <= ref.end))
    cands = [ref.clock, ref.end]
    for t in times[:4]:
        cands += [t, t + 0.25, t - 0.25]
        if isinstance(t, float):
            import math as _m
            cands += [_m.nextafter(t, _m.inf), _m.nextafter(t, -_m.inf)]
    cands = [t for t in cands if ref.clock <= t <= ref.end]
    t = rng.choice(cands) if cands else ref.clock
    if name == "run_up_to" and t >= ref.end:
        t = (ref.clock + ref.end) / 2.0
    if rng.random() < 0.06:
        t = rng.choice([ref.clock - 1, ref.end + 2])
    return t


def gen_sequential(rng, seq=None):
    if seq is not None:
        prog = FIXED_PROGRAM
        names = [ALPHA[i] for i in seq]
    else:
        prog = program.gen_program(rng, clock=rng.choice(["float", "float", "int", "duration"]),
                                   n_events=rng.randint(2, 10), p_cancel=0.05)
        if prog["clock"] == "int":
            prog["rep"] = [int(x) for x in prog["rep"]]
        n = rng.randint(1, 12)
        w = [3, 4, 4, 2, 2, 2, 1, 1]
        names = rng.choices(ALPHA, weights=w, k=n)
        if rng.random() < 0.8:
            names[0] = "initialize"
    case = {"program": prog, "strategy": 3, "layer": "a", "sched": {"kind": "S0"}}
    ref = devscommon.make_ref(case)
    cmds = []
    for name in names:
        if name == "end_replication":
            if not (ref.run_state == "STOPPED" and ref.rep_state == "STARTED"):
                if seq is not None:
                    return None
                continue
            cmd = [name]
        elif name in ("run_up_to", "run_up_to_incl"):
            if seq is not None:
                t = 3.5
            else:
                t = _arg_for(rng, ref, name)
                if prog["clock"] == "int":
                    t = int(t)
            cmd = [name, t]
        else:
            cmd = [name]
        if seq is None and name == "initialize" and rng.random() < 0.08:
            # fault: the user's construct_model raises once, the caller retries
            cmds.append(["initialize_failing"])
            cmds.append(["settle"])
        exp = devscommon.ref_apply(ref, cmd)
        if exp is None and cmd[0].startswith("run_up_to"):
            # keep the reference usable for argument generation
            pass
        cmds.append(cmd)
        cmds.append(["settle"])
        if seq is None and rng.random() < 0.06:
            # the caller does nothing for a minute or an hour (virtual time): an idle
            # simulator stays as it is
            cmds.append(["sleep", rng.choice([61.0, 75.0, 3600.0])])
            cmds.append(["settle"])
    case["commands"] = cmds
    if seq is None and rng.random() < 0.08 and not prog.get("tc_listener"):
        # a subscriber that starts listening for time changes in the middle of a run
        case["late_tc"] = rng.randint(1, 4)
    return case


CB_CMDS = [["stop"], ["stop"], ["stop"], ["start"], ["step"], ["run_up_to", 4.0], ["cleanup"],
           ["initialize"], ["end_replication"]]
LISTENER_TYPES = ["START_REPLICATION", "STARTING", "START", "STOPPING", "STOP",
                  "TIME_CHANGED", "WARMUP", "END_REPLICATION"]


def _pause_then_step(rng, prog, case):
    """Directed shape: a handler pauses the run, the caller sees STOPPED and calls
    step() at once; the handler executed by that step (often) ends the replication."""
    probe = {"program": prog, "strategy": 3}
    ref = devscommon.make_ref(probe)
    ref.initialize()
    ref.run(ref.end, True)
    order = [e for t, e in ref.trace if e != "W"]
    if len(order) < 2:
        return None
    k = rng.randint(1, len(order) - 1)
    case["pause_at"] = [k]
    case.pop("listener_cmds", None)
    if rng.random() < 0.7:
        al = prog["events"].get(str(order[k]))
        if al is not None:
            al.insert(rng.choice([0, len(al)]), ["cmd", "end_replication"])
    cmds = [["start"], ["poll_stopped"]]
    for _ in range(rng.randint(1, 2)):
        cmds.append(["step"])
    cmds += [["settle"], ["drain", 8], ["settle"]]
    return cmds


def gen_overlap(rng, seed, tier):
    prog = program.gen_program(rng, clock=rng.choice(["float", "float", "float", "int"]),
                               n_events=rng.choice([2, 3, 4, 5, 6, 8, 10, 15]),
                               p_cancel=0.05)
    case = {"program": prog, "layer": "b",
            "strategy": rng.choice([1, 2, 3, 3])}
    if rng.random() < 0.15:
        case["oneshot_listeners"] = rng.sample(LISTENER_TYPES, rng.randint(1, 3))
    eids = program.event_ids(prog)
    if rng.random() < 0.08 and not prog.get("tc_listener"):
        case["late_tc"] = rng.randint(1, 4)
    # commands from handlers
    if rng.random() < 0.35:
        for _ in range(rng.choice([1, 1, 2])):
            e = rng.choice(eids)
            al = prog["events"][e]
            cmd = list(rng.choice(CB_CMDS))
            if prog["clock"] == "int" and len(cmd) > 1:
                cmd[1] = int(cmd[1])
            al.insert(rng.randint(0, len(al)), ["cmd"] + cmd)
        for al in prog["events"].values():
            # cleanup() is the last thing its handler does (what a lifecycle command
            # does on a simulator that was just cleaned up is outside the generated space)
            if ["cmd", "cleanup"] in al:
                al[:] = [a for a in al if a != ["cmd", "cleanup"]] + [["cmd", "cleanup"]]
    # injected handler faults
    if rng.random() < 0.2:
        e = rng.choice(eids)
        al = prog["events"][e]
        al.insert(rng.randint(0, len(al)), ["fail", rng.choice(program.EXCS)])
    if rng.random() < 0.2:
        case["pause_at"] = sorted(set(rng.randint(1, len(eids)) for _ in range(rng.choice([1, 2]))))
    # commands from listeners
    if rng.random() < 0.3:
        lc = {}
        for _ in range(rng.choice([1, 1, 2])):
            t = rng.choice(LISTENER_TYPES)
            cmd = list(rng.choice([["stop"], ["stop"], ["start"], ["start"], ["step"],
                                   ["end_replication"]]))
            if cmd[0] == "end_replication" and t not in ("START", "STOP", "TIME_CHANGED",
                                                         "WARMUP"):
                # only from notifications of the executing (run or stepping)
                # thread, where it is equivalent to a call from a handler; from
                # the caller-side notifications of start()/stop() it is
                # unspecified (the command in progress would have to re-check)
                cmd = ["stop"]
            if t == "END_REPLICATION" and rng.random() < 0.6:
                # chaining the next replication (or cleaning up) from the end
                # notification, on the run thread: must return, not hang
                cmd = list(rng.choice([["cleanup"], ["initialize"], ["initialize"]]))
            lc.setdefault(t, []).append([rng.choice([1, 1, 2, 3]), cmd])
        case["listener_cmds"] = lc
    # the script
    shape = rng.random()
    cmds = [["initialize"]]
    end = prog["rep"][0] + prog["rep"][2]

    def bound(exclusive):
        t = prog["rep"][0] + rng.choice([0.5, 1, 1.5, 2, 3, 4, 6])
        t = min(t, end)
        if exclusive and t >= end:
            # "up to but excluding" the end would drop the events at the end
            # (documented relaxation): keep exclusive bounds before the end
            t = end - 1
        # (floor, not int(): truncation towards zero would move a negative bound up
        # to the end of a replication that lies in negative time)
        return int(math.floor(t)) if prog["clock"] == "int" else t
    directed = None
    stalled_start = False
    end_then = False
    if shape < 0.14:
        directed = _pause_then_step(rng, prog, case)
    elif shape < 0.24:
        # directed: a paused replication is ended by the caller and cleaned up /
        # re-initialised at once, while the run thread is still finishing it
        probe = devscommon.make_ref({"program": prog, "strategy": 3})
        probe.initialize()
        probe.run(probe.end, True)
        n_exec = len([e for t, e in probe.trace if e != "W"])
        if n_exec >= 2:
            case["pause_at"] = [rng.randint(1, n_exec - 1)]
            case.pop("listener_cmds", None)
            directed = [["start"], ["settle"], ["end_replication_if_paused"]]
            directed += rng.choice([[["cleanup"]], [["initialize"]], [["initialize"]],
                                    [["sleep", 0.0005], ["cleanup"]],
                                    [["sleep", 0.001], ["initialize"]]])
            end_then = True
    elif shape < 0.32:
        # directed: the run thread is descheduled for more than start()'s handshake
        # somewhere between wake-up and its first event, the caller's start()
        # gives up waiting and stop() (or more) follows while the state is STARTING
        stalled_start = True
    if directed is not None:
        cmds += directed
    elif stalled_start:
        cmds += [["start"], ["stop"]]
        if rng.random() < 0.5:
            cmds += [rng.choice([["start"], ["step"], ["stop"], ["settle"]])]
    elif shape < 0.36:
        for _ in range(rng.randint(1, 4)):
            cmds += [["start"], ["stop"]]
    elif shape < 0.42:
        cmds += [["start"], ["poll"], ["start"]]
    elif shape < 0.48:
        cmds += [["start"], ["stop"], ["start"], ["poll"]]
    else:
        pool = [["start"]] * 4 + [["stop"]] * 4 + [["step"]] * 2 + [["poll"]] + \
            [["settle"]] + [["sleep", 0.0005], ["sleep", 0.001], ["sleep", 0.002],
                            ["sleep", 0.02]] + \
            [["run_up_to", None], ["run_up_to_incl", None]] + [["initialize"]]
        for _ in range(rng.randint(1, 7)):
            c = list(rng.choice(pool))
            if len(c) > 1 and c[1] is None:
                c[1] = bound(c[0] == "run_up_to")
            cmds.append(c)
    case["commands"] = cmds
    kind = rng.choice(["pct", "pct", "site", "site", "site", "S0"])
    sc = {"kind": kind, "seed": seed,
          "step_cost_us": rng.choice([0, 0, 1, 10, 100])}
    if kind == "pct":
        sc.update(p=rng.choice([0.05, 0.02, 0.005]), d=rng.choice([1, 2, 3, 4]))
    elif kind == "site":
        sc.update(q=rng.choice([0.3, 0.15, 0.05]), p=rng.choice([0.0, 0.003]),
                  d=rng.choice([1, 2, 3, 4]))
    if rng.random() < 0.15:
        sc["oversleep"] = 3.0
    # grace-period faults: mostly in the thorough tier
    heavy = 0.25 if tier == "thorough" else 0.04
    if kind != "S0" and rng.random() < heavy:
        sc["stall"] = rng.choice([0.3, 0.6])
    if rng.random() < heavy:
        sc["clock_jumps"] = {str(rng.randint(1, 40)): rng.choice([2.0, -2.0, 2.0])}
    if rng.random() < 0.25:
        # fault 'eager poller' (see simrun.Runner._eager)
        sc["eager"] = [rng.choice([0.5, 0.01]),
                       rng.choice([0, 1, 2, 3, 4, 6, 8, 10, 12, 15, 20, 25, 30, 40, 60])]
    if rng.random() < 0.2:
        # pre-emption between bytecodes of simulator.py instead of between lines
        sc["opcodes"] = True
    if stalled_start:
        sc.update(kind="site", q=rng.choice([0.3, 0.15]), p=0.0, d=rng.choice([1, 2, 3]),
                  stall=0.7, stall_choices=[1.2, 1.5, 1.5])
        sc.pop("eager", None)
    if kind != "S0" and rng.random() < 0.4:
        sc["refill"] = True      # the pre-emption budget d is per command, not per run
    if end_then:
        sc.update(kind=rng.choice(["site", "site", "pct"]), q=rng.choice([0.3, 0.15]),
                  p=rng.choice([0.0, 0.02]), d=rng.choice([1, 2, 3]), refill=True)
        sc.pop("eager", None)
    elif directed is not None:
        # the caller reacts to the published pause at once; the run thread, still
        # in the tail of its iteration, is descheduled for about one step()
        sc["eager"] = [rng.choice([0.0005, 0.002, 0.002, 0.01, 0.05]), rng.randint(0, 30)]
        sc["opcodes"] = rng.random() < 0.7
        if not sc["step_cost_us"]:
            sc["step_cost_us"] = rng.choice([1, 10, 10, 100])
    case["sched"] = sc
    return case


def _h3_witness():
    import json
    import os
    p = os.path.join(os.path.dirname(os.path.dirname(os.path.dirname(
        os.path.abspath(__file__)))), "regress", "known_findings", "H3.json")
    try:
        with open(p) as f:
            c = json.load(f)["case"]
        c["pinned"] = True          # (executed without the per-run configuration knobs)
        return c
    except (OSError, ValueError, KeyError):
        return None


def gen_deaf(rng, seed, tier):
    """A plain script without any subscriber (no listeners, no simulation statistics):
    initialize, start, and a cleanup / re-initialise that may overlap the run."""
    prog = program.gen_program(rng, clock=rng.choice(["float", "float", "int"]),
                               n_events=rng.choice([2, 3, 5, 8, 12, 20]), p_cancel=0.05)
    prog.pop("tc_listener", None)
    case = {"program": prog, "layer": "b", "strategy": rng.choice([1, 2, 3, 3]),
            "no_listeners": True}
    cmds = [["initialize"], ["start"]]
    cmds += rng.choice([[["cleanup"]], [["cleanup"]], [["sleep", 0.0005], ["cleanup"]],
                        [["poll_stopped"], ["cleanup"]], [["poll"], ["cleanup"]],
                        [["stop"], ["cleanup"]], [["sleep", 0.001], ["initialize"]],
                        [["poll_stopped"], ["initialize"]], [["stop"], ["initialize"]]])
    if rng.random() < 0.4:
        cmds += [["settle"], rng.choice([["initialize"], ["start"], ["step"]])]
    case["commands"] = cmds
    kind = rng.choice(["pct", "site", "site", "S0"])
    sc = {"kind": kind, "seed": seed, "step_cost_us": rng.choice([0, 1, 10, 100])}
    if kind == "pct":
        sc.update(p=rng.choice([0.05, 0.02]), d=rng.choice([1, 2, 3]))
    elif kind == "site":
        sc.update(q=rng.choice([0.3, 0.15]), p=rng.choice([0.0, 0.003]), d=rng.choice([1, 2, 3]))
    if rng.random() < 0.4:
        sc["eager"] = [rng.choice([0.5, 0.01, 0.002]), rng.choice([0, 1, 2, 4, 8, 15, 30, 60])]
    if rng.random() < 0.2:
        sc["opcodes"] = True
    if kind != "S0" and rng.random() < 0.4:
        sc["refill"] = True
    case["sched"] = sc
    return case


def evaluate_deaf(case, r):
    """Nobody listens: judged by states, run-thread liveness and handler executions."""
    H = r.hist.H
    if r.aborted:
        return [("no-quiescence", "run aborted: %s after %d steps (last commands %s)"
                 % (r.aborted, r.det.step, case["commands"][-3:]))]
    grace_fault = (r.det.n_fault_clock_jump > 0 or bool((case.get("sched") or {}).get("oversleep"))
                   or sum(d[2] for d in r.det.decisions if len(d) > 2 and d[2]) >= 0.9)
    cmds = devscommon.split_history(H)
    for c in cmds:
        ck = r.cmd_clock.get(c["index"])
        if c["name"] in ("initialize", "cleanup", "stop") and ck and ck[1] is not None \
                and (_grace_expired(ck) or grace_fault):
            r.count("unjudged:grace-expired-in-initialize-or-cleanup")
            return []
        if c["callback"] and c["name"] in ("initialize", "cleanup"):
            r.count("unjudged:initialize-or-cleanup-while-STOPPING")
            return []
    findings = lifecycle.check_quiescent_states(H)
    for c in cmds:
        o = c.get("outcome")
        if o is not None and o.startswith("exc:"):
            findings.append(("command-raised-non-dsol-error", "command #%d %s (%s) raised %s"
                             % (c["index"], c["name"], c.get("where", "driver"), o)))
            break
    for c in cmds:
        if c["name"] != "cleanup" or c.get("outcome") != "ok" or "return_pos" not in c:
            continue
        nxt = next((d["invoke_pos"] for d in cmds if d["name"] == "initialize"
                    and d["invoke_pos"] > c["return_pos"]), len(H))
        late = [h for h in H[c["return_pos"]:nxt] if h[0] == "exe"]
        if late:
            findings.append(("accepted-cleanup-without-effect",
                             "cleanup #%d returned normally but handlers kept running "
                             "afterwards: %s" % (c["index"], [(x[1], x[2]) for x in late[:4]])))
            break
        for h in H[c["return_pos"]:nxt]:
            if h[0] == "quiet" and ((h[2], h[3]) != ("NOT_INITIALIZED", "NOT_INITIALIZED")
                                     or h[-1] != 0):
                findings.append(("state-after-command",
                                 "at quiescence after cleanup #%d the simulator reports (%s, %s) "
                                 "with %d live run thread(s)" % (c["index"], h[2], h[3], h[-1])))
                break
        if findings:
            break
    return findings


def generate(seed, tier, idx=0):
    rng = common.rng_for(seed, "case")
    if idx == n_exh(tier):
        # the recorded witness of open finding H3 (a replay of a fixed schedule: it
        # reproduces on the tree it was recorded on and is an ordinary case elsewhere)
        w = _h3_witness()
        if w is not None:
            return w
    if idx < n_exh(tier):
        c = gen_sequential(rng, exhaustive_sequences(tier)[idx])
        if c is None:
            return {"skip": True}
        c["enumerated"] = idx
        return c
    if rng.random() < 0.35:
        return gen_sequential(rng)
    if rng.random() < 0.06:
        return gen_deaf(rng, seed, tier)
    return gen_overlap(rng, seed, tier)


# ---------------------------------------------------------------------------
# execution

def _drain_plan(case):
    prog = case["program"]
    n = 3 + len(case.get("pause_at", ())) + program.count_actions(prog, "fail") \
        + program.count_actions(prog, "cmd") \
        + sum(len(v) for v in case.get("listener_cmds", {}).values())
    return n


class C04Runner(simrun.Runner):
    """After the script: settle; if the replication can continue, drain it
    with start() until ENDED (bounded); then probe the ended simulator."""

    def finish(self):
        det = self.det
        det.settle()
        H = self.hist.H
        H.append(("quiet", self.cmd_index) + self.snapshot()
                 + (len(det.live_threads()),))
        self.script_end_pos = len(H)
        if self.case.get("layer") == "b":
            for _ in range(_drain_plan(self.case)):
                s = self.snapshot()
                if s[0] not in ("INITIALIZED", "STOPPED") or \
                        s[1] not in ("INITIALIZED", "STARTED"):
                    break
                self.do_cmd(["start"])
                self.do_cmd(["settle"])
        s = self.snapshot()
        self.probed = False
        if s[0] == "ENDED" and s[1] == "ENDED":
            self.probed = True
            for name in ("start", "step", "stop"):
                self.do_cmd([name])
            self.do_cmd(["settle"])
        super().finish()


def _accepted_between(cmds, names, lo, hi):
    return any(c["name"] in names and c.get("outcome") == "ok"
               and lo < c.get("invoke_pos", -1) < hi for c in cmds)


def _grace_expired(ck):
    """The command lasted a grace period (1 s, compared in truncated ms) by the wall
    clock it reads or by monotonic virtual time (an injected clock step may fall
    inside the command, before its loop takes its start time)."""
    return ck[1] - ck[0] >= 0.9985 or ck[3] - ck[2] >= 0.9985


def evaluate_overlap(case, r):
    H = r.hist.H
    findings = []
    if r.aborted:
        return [("no-quiescence", "run aborted: %s after %d steps (last commands %s)"
                 % (r.aborted, r.det.step, case["commands"][-3:]))]
    cmds = devscommon.split_history(H)
    findings += lifecycle.check_quiescent_states(H)
    ref0 = devscommon.make_ref(case)

    def wtime(rp):
        return r.ref_time(ref0.warmup_time)
    findings += lifecycle.check_stream(H, wtime)
    findings += lifecycle.check_balanced_at_end(H)
    nested_bad = next((h[3] for h in H if h[0] == "nested" and h[3]), None)
    # initialize / cleanup admitted while the run thread is still active
    def admission_state(c):
        """run_state seen when the command made its own first state change
        (the snapshot at invoke may be stale under pre-emption)."""
        label = "%s#%d" % (c["name"], c["index"])
        for h in H[c["invoke_pos"]:c.get("return_pos", len(H))]:
            if h[0] == "st" and (h[3] or "").startswith(label):
                return h[4]
        return c["before"][0]
    grace_fault = (r.det.n_fault_clock_jump > 0 or bool((case.get("sched") or {}).get("oversleep"))
                   or sum(d[2] for d in r.det.decisions if len(d) > 2 and d[2]) >= 0.9)
    # (stalls add up: two stalls of half a second inside one command exhaust a
    # one-second grace period just like a single long one)
    if nested_bad and not grace_fault:
        # (with stalls of more than a second the nested simulator's own grace
        # periods expire: not judged)
        findings.append(("nested-simulator", "a second simulator run from a callback of "
                         "the first one: " + nested_bad))
    if any(c["name"] == "end_replication" and c["callback"]
           and c["before"][1] == "NOT_INITIALIZED" for c in cmds):
        # end_replication() on a simulator that a handler has just cleaned up: outside
        # the generated space (can only arise while shrinking)
        return []
    for c in cmds:
        if c["name"] not in ("initialize", "cleanup"):
            continue
        ck = r.cmd_clock.get(c["index"])
        if grace_fault and ck and ck[1] is not None and _grace_expired(ck):
            # an injected stall / clock fault of about a second let the 1 s
            # grace period inside cleanup() expire: the abandoned run thread
            # may still deliver its last notifications afterwards (by design,
            # see ASSUMPTIONS); nothing after it is judged
            r.count("unjudged:grace-expired-in-initialize-or-cleanup")
            return []
        label = "%s#%d" % (c["name"], c["index"])
        own_changes = any(h[0] == "st" and (h[3] or "").startswith(label)
                          for h in H[c["invoke_pos"]:c.get("return_pos", len(H))])
        if c.get("outcome") == "ok" or own_changes:
            # (a command that changed the state was admitted, whatever it
            # finally returned)
            adm = admission_state(c)
            if c["name"] == "initialize" and adm in ("STARTING", "STARTED") \
                    and c["before"][0] in ("STARTING", "STARTED"):
                return [("initialize-admitted-while-running",
                         "initialize #%d issued from %s was admitted in run_state %s"
                         % (c["index"], c.get("where", "driver"), adm))]
            if c["callback"] and c["tid"] == 0 and c["name"] == "cleanup" \
                    and (c.get("outer") or "").startswith("step#"):
                # cleanup() from a handler executed by step(): the caller itself is the
                # one that 'runs', the run thread is at rest -> no grace period involved
                continue
            if adm in ("STOPPING", "STARTING", "STARTED") \
                    or c["before"][0] in ("STOPPING", "STARTING", "STARTED") \
                    or (c["callback"] and c["tid"] != 0):
                if ck and ck[1] is not None and not _grace_expired(ck) \
                        and not (c["callback"] and c["tid"] != 0) and not grace_fault:
                    # the run thread came to rest well within the grace period: the
                    # command is judged like any other
                    r.count("judged:initialize-or-cleanup-overlapping-the-run")
                    continue
                # the run thread is still inside a handler/listener (a stop
                # requested from a callback burns the whole 1 s grace period
                # of cleanup): grace expiry is by design, nothing after it is
                # judged
                r.count("unjudged:initialize-or-cleanup-while-STOPPING")
                return []
    # commands that raised something else than DSOLError
    for c in cmds:
        o = c.get("outcome")
        if o is not None and o.startswith("exc:"):
            findings.append(("command-raised-non-dsol-error",
                             "command #%d %s (%s) raised %s"
                             % (c["index"], c["name"], c.get("where", "driver"), o)))
            break
    # refused commands notify nobody / change nothing when nothing else ran
    sw_steps = sorted(x[1] for x in r.det.log if x[0] in ("sw", "bl"))
    import bisect
    for c in cmds:
        if c.get("outcome") != "DSOLError":
            continue
        label_prefix = "%s#%d" % (c["name"], c["index"])
        lo, hi = c["invoke_pos"], c.get("return_pos", len(H))
        n = [h for h in H[lo:hi] if h[0] == "ntf" and h[4] is not None
             and h[4].startswith(label_prefix)]
        if n:
            findings.append(("refused-command-notified",
                             "refused command #%d %s notified subscribers: %s"
                             % (c["index"], c["name"], [x[1] for x in n][:3])))
            break
        st = r.cmd_steps.get(c["index"])
        if st and st[1] is not None:
            i = bisect.bisect_left(sw_steps, st[0])
            alone = i >= len(sw_steps) or sw_steps[i] > st[1]
            if alone and c["before"] != c["after"]:
                findings.append(("refused-command-changed-state",
                                 "refused command #%d %s (%s; no other thread ran "
                                 "meanwhile) changed (run_state, replication_state, "
                                 "clock, run_until, inclusive, pending) from %s to %s"
                                 % (c["index"], c["name"], c.get("where", "driver"),
                                    c["before"], c["after"])))
                break
    # consequences of accepted commands
    quiet_pos = [pos for pos, h in enumerate(H) if h[0] in ("quiet", "final")]

    def next_quiet(p):
        for q in quiet_pos:
            if q > p:
                return q
        return len(H)
    for c in cmds:
        if c.get("outcome") != "ok" or "return_pos" not in c:
            continue
        if c["name"] in ("start", "run_up_to", "run_up_to_incl"):
            q = next_quiet(c["return_pos"])
            started = any(h[0] == "ntf" and h[1] == "START"
                          for h in H[c["invoke_pos"]:q])
            excused = _accepted_between(cmds, ("stop", "cleanup", "initialize",
                                               "end_replication"),
                                        c["invoke_pos"], q)
            if not started and not excused:
                findings.append(("accepted-start-without-effect",
                                 "command #%d %s (%s) returned normally but the run "
                                 "thread never started (no START notification before "
                                 "the next quiescence; state then %s)"
                                 % (c["index"], c["name"], c.get("where", "driver"),
                                    H[q][1:5] if q < len(H) else None)))
                break
        if c["name"] == "stop":
            ck = r.cmd_clock.get(c["index"])
            if ck and ck[1] is not None and _grace_expired(ck):
                # the 1 s grace period of stop() expired: by design the
                # command returns before the run thread reacted (the loop
                # compares truncated milliseconds, so it can end after
                # 0.999 s minus rounding)
                r.count("grace-period-expired")
                continue
            # after an accepted stop nothing executes until the next accepted
            # start-like command (the event in progress may finish before
            # stop returns; grace expiry excluded by construction)
            p = c["return_pos"]
            if c.get("where") and c["where"].startswith(("handler", "listener")) \
                    and c["tid"] != 0:
                # issued on the run thread itself: the handler in progress is
                # the one that called stop; nothing new may start after it
                pass
            nxt = len(H)
            for d in cmds:
                if d["name"] in devscommon.START_LIKE + ("initialize",) \
                        and d.get("outcome") == "ok" and d["invoke_pos"] > c["invoke_pos"]:
                    nxt = min(nxt, d["invoke_pos"])
            # a step() that was already in progress when stop was called
            # completes its single event
            steps = [(d["invoke_pos"], d.get("return_pos", len(H))) for d in cmds
                     if d["name"] == "step" and d["invoke_pos"] < p]
            late = [h for x, h in enumerate(H[p:nxt], p) if h[0] == "exe"
                    and not any(a < x < b for a, b in steps)]
            if (c.get("where") or "").startswith("listener"):
                # TIME_CHANGED is fired after the event was taken from the
                # list: a stop issued (directly or nested) from inside that
                # notification lets the event "in progress" complete
                for h in reversed(H[:c["invoke_pos"]]):
                    if h[0] == "exe" and h[3] == c["tid"]:
                        break
                    if h[0] == "ntf" and h[3] == c["tid"]:
                        if h[1] == "TIME_CHANGED":
                            late = late[1:]
                            break
                        if h[1] in ("START", "STOP"):
                            break
            if late:
                findings.append(("accepted-stop-without-effect",
                                 "stop #%d (%s) returned normally at history position "
                                 "%d but handlers kept running afterwards without a "
                                 "new start: %s" % (c["index"], c.get("where", "driver"),
                                                    p, [(x[1], x[2]) for x in late[:4]])))
                break
            if not c["callback"]:
                # from the moment this stop wrote STOPPING, at most the event the
                # run thread had already committed to may still start (whether or
                # not stop() has returned yet)
                label = "stop#%d" % c["index"]
                own = next((x for x, h in enumerate(H[c["invoke_pos"]:p], c["invoke_pos"])
                            if h[0] == "st" and (h[3] or "").startswith(label)
                            and h[6] == "STOPPING"), None)
                if own is not None:
                    started = [h for x, h in enumerate(H[own:nxt], own) if h[0] == "exe"
                               and not any(a < x < b for a, b in steps)]
                    if len(started) > 1:
                        findings.append(("accepted-stop-without-effect",
                                         "stop #%d changed the run state to STOPPING at "
                                         "history position %d, yet %d further handlers "
                                         "started without a new start: %s"
                                         % (c["index"], own, len(started),
                                            [(x[1], x[2]) for x in started[:4]])))
                        break
    # a replication that the caller ended (accepted end_replication on a paused
    # replication) must notify its end, whatever follows (cleanup / initialize at
    # once included: they wait for the run thread)
    for c in cmds:
        if c["name"] == "end_replication" and not c["callback"] and c.get("outcome") == "ok" \
                and c["before"][:2] == ("STOPPED", "STARTED"):
            if not any(h[0] == "ntf" and h[1] == "END_REPLICATION"
                       for h in H[c["invoke_pos"]:]):
                findings.append(("end-not-notified",
                                 "end_replication #%d was accepted on a paused replication "
                                 "but END_REPLICATION was never notified (commands after "
                                 "it: %s)" % (c["index"],
                                              [d["name"] for d in cmds
                                               if d["invoke_pos"] > c["invoke_pos"]][:3])))
                break
    # a replication whose end became visible in the state must have notified it
    ended_pos = [i for i, h in enumerate(H) if h[0] == "st" and h[6] == "ENDED"
                 and h[7] == "ENDED" and h[2] != 0]
    for ep in ended_pos:
        rp = next((x for x in lifecycle.replications(H) if x["start"] <= ep), None)
        nxt_init = next((x["start"] for x in lifecycle.replications(H) if x["start"] > ep),
                        len(H))
        got_end = any(h[0] == "ntf" and h[1] == "END_REPLICATION" for h in H[:nxt_init + 1]
                      if True) and any(h[0] == "ntf" and h[1] == "END_REPLICATION"
                                       for h in H[max(0, ep - 400):nxt_init + 1])
        if not got_end and not any(f[0] == "end-not-notified" for f in findings):
            findings.append(("end-not-notified",
                             "the run thread reported (ENDED, ENDED) at history position %d "
                             "but END_REPLICATION was never delivered to the subscribers of "
                             "that replication" % ep))
    # after-end
    fin = next((h for h in reversed(H) if h[0] == "final"), None)
    if getattr(r, "probed", False):
        probes = [c for c in cmds if c["invoke_pos"] >= r.script_end_pos
                  and c["name"] in ("start", "step", "stop")][-3:]
        for c in probes:
            if c.get("outcome") != "DSOLError":
                findings.append(("after-end", "%s on an ENDED simulator: outcome %s"
                                 % (c["name"], c.get("outcome"))))
                break
        if fin is not None and fin[-1] != 0:
            findings.append(("after-end", "%d run thread(s) still alive after the "
                             "replication ended" % fin[-1]))
    if r.after_cleanup_live:
        findings.append(("after-end", "%d run thread(s) still alive after cleanup()"
                         % r.after_cleanup_live))
    # exactly-once under overlap: trace of the last replication == reference
    reps = lifecycle.replications(H)
    spoil = any(c["name"] in ("cleanup", "end_replication") and c.get("outcome") == "ok"
                for c in cmds)
    if case["program"].get("tc_listener") and any(
            c["name"] == "run_up_to" and c.get("outcome") == "ok" for c in cmds):
        # an exclusive bounded run moves the clock to its bound without announcing
        # it: a model with a TIME_CHANGED subscriber that schedules events is then
        # not comparable with the uninterrupted run
        spoil = True
    if reps and not spoil and fin is not None:
        rp = reps[-1]
        got = devscommon.executed(H[rp["start"]:])
        ref = devscommon.make_ref(case)
        # the uninterrupted run: pauses (stop from handlers, warn-and-pause)
        # do not change what is executed, only when
        ref.pause_at = set()
        ref.ignore_stops = True
        ref.strategy = 1
        ref.initialize()
        guard = 0
        while ref.run_state != "ENDED" and guard < 1000:
            if ref.run(ref.end, True) != OK:
                break
            guard += 1
        exp = devscommon.ref_trace(ref, r)
        if fin[1] == "ENDED":
            d = devscommon.describe_trace_diff(got, exp)
            if d is not None:
                findings.append(("exactly-once-under-overlap", d[1]))
        else:
            # could not be drained to the end: what ran must be a prefix
            i = devscommon.first_diff(got, exp[:len(got)])
            if i is not None:
                findings.append(("exactly-once-under-overlap",
                                 "executed trace is not a prefix of the reference "
                                 "trace at position %d: %s vs %s"
                                 % (i, got[:i + 2], exp[:i + 2])))
            if fin[1] in ("STOPPED", "INITIALIZED") and fin[2] in ("INITIALIZED", "STARTED") \
                    and fin[3] <= r.ref_time(ref.end):
                findings.append(("drain-stuck",
                                 "after the script %d further start() calls did not "
                                 "bring the replication to its end (state %s)"
                                 % (_drain_plan(case), fin[1:4])))
    return findings


def execute(case):
    if case.get("skip"):
        return {"status": "ok", "clean": True, "nontrivial": False,
                "case_digest": 0, "counters": {"skipped_enumerated": 1}}
    r = C04Runner(case).run()
    H = r.hist.H
    cnt = {}
    layer = case.get("layer", "a")
    cnt["layer:" + layer] = 1
    if layer == "a":
        findings, info = devscommon.evaluate_sequential(case, r)
        if info.get("invalid"):
            cnt["out_of_generated_space"] = 1
        elif not findings or findings[0][0] != "harness":
            ref0 = devscommon.make_ref(case)
            findings += lifecycle.check_quiescent_states(H)
            findings += lifecycle.check_stream(H, lambda rp: r.ref_time(ref0.warmup_time))
            if getattr(r, "probed", False) and not r.aborted:
                cmds = devscommon.split_history(H)
                for c in [c for c in cmds if c["invoke_pos"] >= r.script_end_pos][:3]:
                    if c.get("outcome") != "DSOLError":
                        findings.append(("after-end", "%s on an ENDED simulator: "
                                         "outcome %s" % (c["name"], c.get("outcome"))))
                        break
            if not r.aborted and r.after_cleanup_live:
                findings.append(("after-end", "%d run thread(s) alive after cleanup()"
                                 % r.after_cleanup_live))
        nontrivial = info.get("accepted", 0) >= 1 and info.get("refused", 0) >= 1
        cnt["probe:sequential_accepted_commands"] = info.get("accepted", 0)
        cnt["probe:sequential_refused_commands"] = info.get("refused", 0)
        if "enumerated" in case:
            cnt["enumerated_sequences"] = 1
    else:
        findings = evaluate_deaf(case, r) if case.get("no_listeners") \
            else evaluate_overlap(case, r)
        cmds = devscommon.split_history(H)
        acc = [c for c in cmds if c["name"] in devscommon.START_LIKE
               and c.get("outcome") == "ok"]
        in_cmd = 0
        for x in r.det.log:
            if x[0] == "sw":
                in_cmd += 1
        nontrivial = bool(acc) and in_cmd >= 1
        _probes(r, H, cmds, cnt)
    res = {"digest": r.digest(), "clean": r.clean, "counters": cnt,
           "sums": {"sim_wall_seconds": r.det.clock - r.det.t0,
                    "yield_points": r.det.step},
           "sets": {}, "final_case": devscommon.replay_form(case, r)}
    kind = (case.get("sched") or {}).get("kind", "S0")
    cnt["strategy:" + kind] = 1
    for k, v in r.faults.items():
        cnt["fault:" + k] = v
    for k, v in r.probes.items():
        cnt["probe:" + k] = v
    if r.det.n_switch:
        cnt["fault:preempt"] = r.det.n_switch
    if r.det.n_timer_fire:
        cnt["fault:timer_fire"] = r.det.n_timer_fire
    if r.det.n_fault_clock_jump:
        cnt["fault:clock_jump"] = r.det.n_fault_clock_jump
    if r.det.n_stall:
        cnt["fault:stall"] = r.det.n_stall
    if r.det.n_eager:
        cnt["fault:eager_poller"] = r.det.n_eager
    sc_ = case.get("sched") or {}
    if sc_.get("opcodes"):
        cnt["granularity:bytecode"] = 1
    if sc_.get("refill"):
        cnt["budget:per_command"] = 1
    sites = tuple(r.det.sites)
    res["sets"]["interleavings"] = [common.digest8([sites, case["commands"]])] if sites else []
    res["sets"]["state_tuples"] = list({(h[4], h[5], h[6], h[7], h[2] != 0,
                                         (h[3] or "").split("#")[0])
                                        for h in H if h[0] == "st"})
    res["nontrivial"] = nontrivial
    res["sample_class"] = "layer-" + layer + ("-enumerated" if "enumerated" in case else "")
    res["case_digest"] = common.digest8([case["program"], case["commands"],
                                         case.get("listener_cmds"), case.get("pause_at"),
                                         sites])
    res["observed"] = {"notifications": [h[1] for h in H if h[0] == "ntf"][:30],
                       "outcomes": [(c["name"], c.get("outcome"))
                                    for c in devscommon.split_history(H)][:16]}
    unexplained = [f for f in findings if known_finding(f, H) is None]
    if unexplained:
        res["status"] = "violation"
        res["check_id"], res["message"] = unexplained[0]
        if unexplained[0][0] == "harness":
            res["status"] = "harness"
    elif findings:
        res["status"] = "violation"
        res["check_id"], res["message"] = findings[0]
        res["finding"] = known_finding(findings[0], H)
    else:
        res["status"] = "ok"
    return res


def known_finding(finding, H):
    """Objective history predicates of the open findings (DESIGN §3); each
    explains only the listed check id."""
    if finding[0] == "stopping-after-end":
        # H1: a stop() that passed its precondition check before
        # END_REPLICATION was notified fires STOPPING after it
        inv = {}
        for i, h in enumerate(H):
            if h[0] == "cmd" and h[3] == "invoke" and h[2] == "stop":
                inv[h[1]] = (i, h[5][0])
        ok = False
        for rp in lifecycle.replications(H):
            end_pos = next((i for i in range(rp["start"], rp["end"])
                            if H[i][0] == "ntf" and H[i][1] == "END_REPLICATION"), None)
            if end_pos is None:
                continue
            for i in range(end_pos + 1, rp["end"]):
                h = H[i]
                if h[0] == "ntf" and h[1] == "STOPPING":
                    label = h[4] or ""
                    try:
                        idx = int(label.split("#")[1].split("@")[0])
                    except Exception:
                        return None
                    if idx not in inv or inv[idx][0] > end_pos \
                            or inv[idx][1] not in ("STARTING", "STARTED"):
                        return None
                    ok = True
        return "H1" if ok else None
    if finding[0] == "command-raised-non-dsol-error":
        # H3: two lifecycle commands on different threads inside cleanup() at once;
        # the loser dereferences the worker reference the winner has set to None
        import re
        m = re.match(r"command #(\d+) (\w+) .*raised exc:AttributeError$", finding[1])
        if not m or m.group(2) not in ("initialize", "cleanup", "stop"):
            return None
        cmds = devscommon.split_history(H)
        c = next((x for x in cmds if x["index"] == int(m.group(1))), None)
        if c is None or "invoke_pos" not in c:
            return None
        lo, hi = c["invoke_pos"], c.get("return_pos", len(H))
        for o in cmds:
            if o is c or o["name"] not in ("initialize", "cleanup") or "invoke_pos" not in o:
                continue
            if o.get("tid") != c.get("tid") and o["invoke_pos"] < hi \
                    and o.get("return_pos", len(H)) > lo:
                return "H3"
        return None
    return None


def _probes(r, H, cmds, cnt):
    """'This rare window was hit' counters (DESIGN §4.4)."""
    for c in cmds:
        b = c.get("before")
        if not b:
            continue
        where = c.get("where") or "driver"
        if where.startswith("handler"):
            cnt["probe:command-in-handler"] = cnt.get("probe:command-in-handler", 0) + 1
        if c["name"] in ("start", "run_up_to", "run_up_to_incl") and b[0] == "STOPPING":
            cnt["probe:start||STOPPING"] = cnt.get("probe:start||STOPPING", 0) + 1
        if c["name"] == "step" and b[0] == "STOPPING":
            cnt["probe:step||STOPPING"] = cnt.get("probe:step||STOPPING", 0) + 1
        if c["name"] == "stop" and b[0] == "STARTING":
            cnt["probe:stop||STARTING"] = cnt.get("probe:stop||STARTING", 0) + 1
        if c["name"] == "stop" and c.get("outcome") == "ok" and c.get("after") \
                and c["after"][1] in ("ENDING", "ENDED"):
            cnt["probe:stop||natural-end"] = cnt.get("probe:stop||natural-end", 0) + 1
        if c["name"] == "initialize" and b[0] in ("STARTING", "STARTED"):
            cnt["probe:initialize||running"] = cnt.get("probe:initialize||running", 0) + 1


def case_size(case):
    p = case["program"]
    return {"events": len(p["events"]), "commands": len(case["commands"]),
            "decisions": len((case.get("sched") or {}).get("decisions", []))
            if (case.get("sched") or {}).get("kind") == "replay" else None}


def shrink(case, fails):
    return shr.shrink_devs_case(case, fails)


def extra_evidence(agg, tier):
    out = {"distinct_interleavings": len(agg.sets.get("interleavings", ())),
           "distinct_state_tuples": len(agg.sets.get("state_tuples", ())),
           "exhaustive_sublayer": {
               "what": "all command sequences of length <= %d over %d commands on the fixed program"
                       % (EXH_LEN[tier], len(ALPHA)),
               "sequences": n_exh(tier),
               "executed": agg.counters.get("enumerated_sequences", 0),
               "skipped_because_end_replication_not_generated_in_that_state":
                   agg.counters.get("skipped_enumerated", 0)}}
    return out
