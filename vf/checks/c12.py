"""C12 — random streams are reproducible, resettable, restorable,
independent and in range."""
from vf import common, shrink as shr, twothread

common.use_repo()
from pydsol.core.streams import MersenneTwister      # noqa: E402
import pydsol.core.streams as _streams_mod            # noqa: E402

PROPERTY = "C12"
LEVEL = "exploration"
BUDGET = {"quick": 150000, "thorough": 15000000}
WALL_CAP = {"quick": 150, "thorough": 3000}
CHUNK = 2000
RULE = ("one case = a history of up to 80 operations over 1-3 MersenneTwister "
        "streams (next_float, next_int(lo,hi) with single-value / negative / "
        "zero-spanning / huge ranges up to 2**1000, next_bool, set_seed incl. 0, "
        "negative and 2**200, reset, save_state, restore_state of any earlier "
        "token of that stream), interleaved across streams; 12 % of the histories "
        "contain one stream built without a seed under a virtual wall clock (its "
        "reported seed is then the current seed). Oracle = relations: "
        "every draw is compared bit for bit with a shadow stream that is only ever "
        "constructed and drawn from (reset/set_seed/restore on the subject "
        "correspond to constructing a fresh shadow and replaying the draws since "
        "seeding); solo twins replay each stream's own operations without the "
        "interleaving (independence); floats in [0,1), ints in [lo,hi], bool is "
        "bool. A scripted generator injected at the wrapped-Random seam feeds the "
        "extreme uniforms 0.0 and 1-2**-53 to next_int over ranges around powers "
        "of two. non-trivial = at least one reset or restore happened after draws "
        "and was followed by further draws; distinct = digest of the history")
COMPONENTS = {"real": ["pydsol.core.streams.MersenneTwister"],
              "stub": ["random.Random inside the stream (only in the extreme-uniform sub-check)",
                       "time.time/sleep in the stream module (virtual clock, only while an unseeded stream is constructed)",
                       "threading.Thread.start / thread scheduling (baton scheduler, two-thread layer only)"]}
ASSUMPTIONS = ["sizes are swarm-varied: about 1 % of the histories have 700 or 2500 operations (beyond one 624-word block of the generator)",
               "integer ranges wider than the largest float are not generated (int->float conversion raises OverflowError, which is not an out-of-range draw)",
               "weak fit for the single-caller layer (history + metamorphic relations, no scheduler); the two-thread layer (6 % of the cases) gives each thread its own stream - sharing one stream object between threads is not judged"]

SEEDS = [0, 1, 2, 10, 101, -1, -7, 2 ** 31, 2 ** 32 + 5, 2 ** 63, 2 ** 200, 12345678901234567890]


def init_worker():
    twothread.install(_streams_mod)


def _gen_stream_ops(rng, n):
    ops = []
    for _ in range(n):
        r = rng.random()
        if r < 0.45:
            ops.append([0, rng.choice(["float", "float", "bool"])])
        elif r < 0.6:
            ops.append([0, "int", 0, 9])
        elif r < 0.75:
            ops.append([0, "set_seed", rng.choice(SEEDS)])
        elif r < 0.9:
            ops.append([0, "reset"])
        else:
            ops.append([0, "save"] if rng.random() < 0.5 else [0, "restore", rng.random()])
    return ops


def gen_threaded(rng, seed):
    """Two threads, each with its OWN stream (two simulators side by side that
    reseed at replication start): constructing, seeding, resetting, saving,
    restoring and drawing at the same time, under seeded pre-emption inside
    streams.py.  Each stream must behave exactly as it does alone."""
    return {"kind": "threaded", "seeds": [rng.choice(SEEDS), rng.choice(SEEDS)],
            "ops_a": _gen_stream_ops(rng, rng.choice([3, 6, 12])),
            "ops_b": _gen_stream_ops(rng, rng.choice([3, 6, 12])),
            "sched": {"seed": seed, "p": rng.choice([0.05, 0.15, 0.3]),
                      "d": rng.choice([2, 4, 8, 20])}}


def _run_ops(seed_value, ops):
    st = MersenneTwister(seed_value)
    toks, outs = [], []
    for op in ops:
        name = op[1]
        if name in ("float", "int", "bool"):
            outs.append(draw(st, op))
        elif name == "set_seed":
            st.set_seed(op[2])
        elif name == "reset":
            st.reset()
        elif name == "save":
            toks.append(st.save_state())
        elif name == "restore" and toks:
            st.restore_state(toks[int(op[2] * len(toks)) % len(toks)])
    outs.append(("seed", st.seed()))
    return outs


def run_threaded(case):
    info = {"reset_or_restore_after_draws": True, "draws_after": True, "draws": 0}
    res = {}
    init_worker()
    det, errors = twothread.run_two(
        case["sched"],
        lambda: res.__setitem__("a", _run_ops(case["seeds"][0], case["ops_a"])),
        lambda: res.__setitem__("b", _run_ops(case["seeds"][1], case["ops_b"])))
    info["switches"] = det.n_switch
    info["schedule"] = [det.ydigest, det.step, [list(d) for d in det.decisions]]
    if det.aborted:
        return ("harness", "two-thread run aborted: %s" % det.aborted), info
    if errors:
        return ("not-independent", "using two streams in two threads raised %s: %s"
                % (errors[0][1], errors[0][2])), info
    for who, sd, ops in (("a", case["seeds"][0], case["ops_a"]),
                         ("b", case["seeds"][1], case["ops_b"])):
        alone = _run_ops(sd, ops)
        info["draws"] += len(alone)
        if res.get(who) != alone:
            j = next(k for k in range(len(alone)) if res[who][k] != alone[k])
            return ("not-independent",
                    "two threads each used their own stream at the same time (%d thread "
                    "switches inside streams.py): the stream seeded %d produced %r as output "
                    "#%d of its operations %s, alone it produces %r"
                    % (det.n_switch, sd, res[who][j], j, ops[:6], alone[j])), info
    return None, info


def generate(seed, tier, idx=0):
    rng = common.rng_for(seed, "case")
    if rng.random() < 0.06:
        return gen_threaded(rng, seed)
    if rng.random() < 0.05:
        return {"kind": "extreme", "n": [rng.choice([1, 2, 3, 7, 10, 2 ** 31, 2 ** 52,
                                                     2 ** 53, 2 ** 53 + 1, 2 ** 53 + 3,
                                                     2 ** 64, 2 ** 64 + 1, 2 ** 100 + 7,
                                                     2 ** 1000, rng.randrange(1, 2 ** 70)])
                                         for _ in range(8)],
                "lo": rng.choice([0, -5, 10, -2 ** 70])}
    if rng.random() < 0.04:
        # exactly / around whole blocks of the generator (624 words = 312 doubles)
        # between seeding and reset / save / restore
        n = rng.choice([312, 624, 936, 1248, 311, 313, 623, 625, 3120])
        sd = rng.choice(SEEDS)
        ops = []
        if rng.random() < 0.3:
            ops.append([0, "set_seed", rng.choice(SEEDS)])
        for _ in range(n):
            r = rng.random()
            ops.append([0, "float"] if r < 0.6 else ([0, "int", 0, 9] if r < 0.8 else [0, "bool"]))
        ops.append([0, rng.choice(["reset", "reset", "save"])])
        for _ in range(rng.randint(1, 4)):
            ops.append([0, "float"])
        if ops[n if ops[0][1] != "set_seed" else n + 1][1] == "save":
            for _ in range(rng.choice([312, 5])):
                ops.append([0, "float"])
            ops += [[0, "restore", 0.0], [0, "float"], [0, "reset"], [0, "float"]]
        return {"kind": "history", "seeds": [sd], "ops": ops}
    k = rng.randint(1, 3)
    seeds = [rng.choice(SEEDS) if rng.random() < 0.6 else rng.randrange(-10 ** 6, 10 ** 9)
             for _ in range(k)]
    if k > 1 and rng.random() < 0.4:
        seeds[1] = seeds[0]         # equal seeds on purpose
    if rng.random() < 0.03:
        # an int of more than 4300 decimal digits (Mersenne prime 2**19937-1, 10**5000)
        seeds[rng.randrange(k)] = rng.choice([["pow", 2, 19937, -1], ["pow", 10, 5000, 7]])
    clock0 = None
    if rng.random() < 0.12:
        # the documented no-seed form MersenneTwister(): the seed is taken from the
        # wall clock (virtual here) and must behave like any other current seed
        seeds[rng.randrange(k)] = None
        clock0 = rng.choice([0.0, 1000.0, 1.7e9 + rng.random() * 1e6, rng.random() * 1e9])
    ops = []
    n = rng.choice([3, 5, 8, 12, 20, 30, 50, 80])
    if rng.random() < 0.01:
        n = rng.choice([700, 2500])        # beyond one 624-word block of the generator
    for _ in range(n):
        s = rng.randrange(k)
        r = rng.random()
        if r < 0.3:
            ops.append([s, "float"])
        elif r < 0.55:
            style = rng.random()
            if style < 0.2:
                lo = rng.randint(-5, 5)
                hi = lo
            elif style < 0.5:
                lo = rng.randint(-20, 5)
                hi = lo + rng.randint(0, 30)
            elif style < 0.7:
                lo, hi = 0, 9
            elif style < 0.85:
                lo = -rng.randrange(2 ** 62)
                hi = rng.randrange(2 ** 64)
            elif style < 0.97:
                lo = rng.choice([0, -2 ** 999, 5])
                hi = lo + rng.choice([2 ** 100, 2 ** 1000, 2 ** 53 + 1])
            else:
                # a range wider than the largest float (a 2048-bit integer): the draw may
                # be refused (OverflowError), but then identically by every equally
                # seeded stream, and never served from anywhere else
                lo = rng.choice([0, 1, -2 ** 1030])
                hi = lo + rng.choice([2 ** 1024, 2 ** 2048, 10 ** 400])
            ops.append([s, "int", lo, hi])
        elif r < 0.68:
            ops.append([s, "bool"])
        elif r < 0.76:
            ops.append([s, "set_seed", rng.choice(SEEDS) if rng.random() > 0.03
                        else ["pow", 2, 19937, -1]])
        elif r < 0.86:
            ops.append([s, "reset"])
        elif r < 0.92:
            ops.append([s, "save"])
        elif r < 0.95:
            # the stream object is replaced by a deep copy / pickle round trip of
            # itself; the original stays alive and keeps drawing
            ops.append([s, "clone", rng.choice(["deepcopy", "deepcopy", "pickle"])])
        else:
            ops.append([s, "restore", rng.random()])
    case = {"kind": "history", "seeds": seeds, "ops": ops}
    if clock0 is not None:
        case["clock0"] = clock0
    return case


REFUSED_RANGE = ("refused: range beyond the float range",)


def draw(st, op):
    if op[1] == "float":
        return st.next_float()
    if op[1] == "int":
        try:
            return st.next_int(op[2], op[3])
        except OverflowError:
            if op[3] - op[2] < 2 ** 1023:
                raise
            return REFUSED_RANGE
    return st.next_bool()


def check_value(op, v):
    if v is REFUSED_RANGE:
        return None
    if op[1] == "float":
        if type(v) is not float or not (0.0 <= v < 1.0):
            return "next_float returned %r, not a float in [0,1)" % (v,)
    elif op[1] == "int":
        if not isinstance(v, int) or isinstance(v, bool) or not (op[2] <= v <= op[3]):
            return "next_int(%d, %d) returned %r" % (op[2], op[3], v)
    else:
        if type(v) is not bool:
            return "next_bool returned %r" % (v,)
    return None


class _FakeTime:
    """Virtual wall clock at the stream module's `time` seam."""

    def __init__(self, t):
        self.t = t

    def time(self):
        return self.t

    def sleep(self, dt):
        self.t += dt


def _unseeded(clock0):
    real = _streams_mod.time
    _streams_mod.time = _FakeTime(clock0)
    try:
        return MersenneTwister()
    finally:
        _streams_mod.time = real


def _show(x):
    if isinstance(x, int) and not isinstance(x, bool) and x.bit_length() > 4000:
        return "<int of %d bits>" % x.bit_length()
    return repr(x)


def _seed(x):
    """Seeds with more than 4300 decimal digits cannot be written as JSON numbers (nor
    printed): cases carry them as ["pow", base, exponent, addend]."""
    if isinstance(x, list):
        return x[1] ** x[2] + x[3]
    return x


def run_history(case):
    seeds = [_seed(s) for s in case["seeds"]]
    case = dict(case, ops=[[op[0], op[1], _seed(op[2])] + list(op[3:])
                           if op[1] == "set_seed" else op for op in case["ops"]])
    subj = []
    for j, s in enumerate(seeds):
        if s is None:
            st = _unseeded(case.get("clock0", 0.0) + j)
            sd = st.seed()
            if type(sd) is not int or st.original_seed() != sd:
                return ("seed-getter", "MersenneTwister() reports seed() = %r, "
                        "original_seed() = %r" % (sd, st.original_seed())), \
                    {"reset_or_restore_after_draws": False, "draws_after": False, "draws": 0}
            seeds[j] = sd
            subj.append(st)
        else:
            subj.append(MersenneTwister(s))
    shadow = [MersenneTwister(s) for s in seeds]
    cur_seed = list(seeds)                 # what reset() refers to
    lin_seed = list(seeds)                 # lineage: the stream behaves like a fresh
    since = [[] for _ in seeds]            # stream(lin_seed) after the draws `since`
    tokens = [[] for _ in seeds]           # (token, lineage seed, lineage draws)
    outputs = [[] for _ in seeds]
    info = {"reset_or_restore_after_draws": False, "draws_after": False, "draws": 0}
    for i, op in enumerate(case["ops"]):
        s = op[0]
        name = op[1]
        if name in ("float", "int", "bool"):
            a = draw(subj[s], op)
            b = draw(shadow[s], op)
            info["draws"] += 1
            if info["reset_or_restore_after_draws"]:
                info["draws_after"] = True
            bad = check_value(op, a)
            if bad:
                return ("out-of-range", "op #%d on stream %d: %s" % (i, s, bad)), info
            if a != b or type(a) is not type(b):
                return ("not-reproducible",
                        "op #%d %s on stream %d (seed %s, %d draws since seeding) "
                        "returned %r; a freshly constructed stream with that seed "
                        "given the same draws returns %r"
                        % (i, [_show(x) for x in op[1:]], s, _show(lin_seed[s]),
                           len(since[s]), a, b)), info
            since[s].append(op)
            outputs[s].append(a)
        elif name == "set_seed":
            subj[s].set_seed(op[2])
            cur_seed[s] = op[2]
            lin_seed[s] = op[2]
            shadow[s] = MersenneTwister(op[2])
            since[s] = []
            if subj[s].seed() != op[2]:
                return ("seed-getter", "after set_seed(%s) seed() returns %s"
                        % (_show(op[2]), _show(subj[s].seed()))), info
            if subj[s].original_seed() != seeds[s]:
                return ("seed-getter", "original_seed() changed from %s to %s after "
                        "set_seed" % (_show(seeds[s]), _show(subj[s].original_seed()))), info
        elif name == "reset":
            subj[s].reset()
            shadow[s] = MersenneTwister(cur_seed[s])
            if since[s]:
                info["reset_or_restore_after_draws"] = True
            lin_seed[s] = cur_seed[s]
            since[s] = []
        elif name == "save":
            tokens[s].append((subj[s].save_state(), lin_seed[s], list(since[s])))
        elif name == "clone":
            import copy
            import pickle
            old = subj[s]
            subj[s] = copy.deepcopy(old) if op[2] == "deepcopy" else pickle.loads(pickle.dumps(old))
            if subj[s] is old:
                return ("not-independent", "op #%d: %s of a stream returned the same object"
                        % (i, op[2])), info
            for _ in range(3):
                old.next_float()        # the original is another stream from now on
            info["clones"] = info.get("clones", 0) + 1
        elif name == "restore":
            if not tokens[s]:
                continue
            tok, sd, ops_then = tokens[s][int(op[2] * len(tokens[s])) % len(tokens[s])]
            subj[s].restore_state(tok)
            sh = MersenneTwister(sd)
            for o in ops_then:
                draw(sh, o)
            shadow[s] = sh
            # restoring continues the saved lineage; what reset() refers to
            # afterwards is the stream's own current seed (unchanged)
            lin_seed[s] = sd
            since[s] = list(ops_then)
            info["reset_or_restore_after_draws"] = True
    # independence: solo twins replay each stream's own ops, not interleaved
    for s in range(len(seeds)):
        solo = MersenneTwister(seeds[s])
        toks = []
        outs = []
        for op in case["ops"]:
            if op[0] != s:
                continue
            name = op[1]
            if name in ("float", "int", "bool"):
                outs.append(draw(solo, op))
            elif name == "set_seed":
                solo.set_seed(op[2])
            elif name == "reset":
                solo.reset()
            elif name == "save":
                toks.append(solo.save_state())
            elif name == "restore" and toks:
                solo.restore_state(toks[int(op[2] * len(toks)) % len(toks)])
        if outs != outputs[s]:
            j = next(k for k in range(len(outs)) if outs[k] != outputs[s][k])
            return ("not-independent",
                    "stream %d drew %r as its draw #%d when interleaved with the other "
                    "streams but %r when the same operations ran alone"
                    % (s, outputs[s][j], j, outs[j])), info
    return None, info


class _Scripted:
    def __init__(self, vals):
        self.vals = list(vals)
        self.calls = 0

    def random(self):
        v = self.vals[self.calls % len(self.vals)]
        self.calls += 1
        return v


def run_extreme(case):
    """next_int must stay in [lo, hi] for the extreme uniforms a generator
    may legally return."""
    st = MersenneTwister(1)
    if not hasattr(st, "_random"):
        return None, {"injected": 0}
    fake = _Scripted([0.0, 1.0 - 2.0 ** -53, 0.5, 5e-324, 2.0 ** -53])
    st._random = fake
    n_inj = 0
    for n in case["n"]:
        lo = case["lo"]
        hi = lo + n - 1
        for _ in range(5):
            before = fake.calls
            v = st.next_int(lo, hi)
            if fake.calls == before:
                return None, {"injected": 0}      # seam not in use: nothing judged
            n_inj += 1
            if not isinstance(v, int) or not (lo <= v <= hi):
                return ("out-of-range", "next_int(%d, %d) returned %r when the generator "
                        "delivered the uniform %r" % (lo, hi, v,
                                                      fake.vals[(fake.calls - 1) % 5])), \
                    {"injected": n_inj}
    return None, {"injected": n_inj}


def execute(case):
    res = {"clean": True, "counters": {}}
    if case["kind"] == "extreme":
        f, info = run_extreme(case)
        res["counters"]["fault:extreme_uniform"] = info["injected"]
        res["nontrivial"] = False
        res["case_digest"] = 0
    elif case["kind"] == "threaded":
        f, info = run_threaded(case)
        res["counters"]["layer:two_threads"] = 1
        res["counters"]["fault:preempt"] = info.get("switches", 0)
        res["nontrivial"] = info.get("switches", 0) > 0
        res["case_digest"] = common.digest8(case)
        res["digest"] = common.digest([case, f and f[0], info.get("schedule")])
        if f:
            res["status"] = "harness" if f[0] == "harness" else "violation"
            res["check_id"], res["message"] = f
        else:
            res["status"] = "ok"
        return res
    else:
        f, info = run_history(case)
        res["counters"]["draws"] = info["draws"]
        res["counters"]["streams:%d" % len(case["seeds"])] = 1
        res["nontrivial"] = info["reset_or_restore_after_draws"] and info["draws_after"]
        res["case_digest"] = common.digest8(case)
    res["digest"] = common.digest([case, f and f[0]])
    if f:
        res["status"] = "violation"
        res["check_id"], res["message"] = f
    else:
        res["status"] = "ok"
    return res


def case_size(case):
    return {"ops": len(case.get("ops", case.get("n", [])))}


def shrink(case, fails):
    if case["kind"] != "history":
        return case
    ops = shr.ddmin(case["ops"], lambda o: fails(dict(case, ops=o)))
    return dict(case, ops=ops)
