"""C14 — draws are a pure function of parameters and stream output, within
the support, total for every stream output in [0,1); constructors accept
exactly the documented domain."""
import math

from vf import common, shrink as shr

common.use_repo()
from pydsol.core import distributions as D           # noqa: E402
from pydsol.core.streams import MersenneTwister      # noqa: E402
from pydsol.core.units import DurationDist, Duration  # noqa: E402

PROPERTY = "C14"
LEVEL = "fault_enumeration"
BUDGET = {"quick": 60000, "thorough": 6000000}
WALL_CAP = {"quick": 150, "thorough": 3000}
CHUNK = 500
INF = math.inf
EXTREMES = [0.0, 5e-324, 2.0 ** -53, 0.5, 1.0 - 2.0 ** -53]
RULE = ("fault = an extreme-but-legal uniform (0.0, 5e-324, 2**-53, 0.5, 1-2**-53) "
        "returned by a scripted stream at a chosen draw index instead of the seeded "
        "value. Enumerated matrix: for each of the 19 concrete classes x parameter "
        "regimes that reach every algorithm branch x each extreme value x each of the "
        "first 4 uniform positions, plus all pairs of positions/values among the "
        "first 4 (two-uniform algorithms); then seeded random parameter sets from the "
        "documented domain with random fault plans. Every cell: construct, draw, "
        "check: no exception, value in the support, twin equality (equal parameters "
        "on equally scripted streams, same number of uniforms consumed), isolation "
        "(two instances interleaved == each alone), re-pointing (old stream never "
        "consumed again, cached Gaussian dropped; also when the new stream is a distinct "
        "object that compares equal to the old one), quantity wrapper draws in its "
        "unit; plus constructor probes with parameters outside the documented "
        "domain. non-trivial = at least one injected extreme uniform was actually "
        "consumed by a draw; distinct = digest of (class, parameters, fault plan)")
COMPONENTS = {"real": ["pydsol.core.distributions (all 19 concrete classes)",
                       "pydsol.core.units.DurationDist"],
              "stub": ["the random stream: ScriptedStream(MersenneTwister) returns scripted uniforms at planned indices (StreamInterface seam)"]}
ASSUMPTIONS = [
    "shape-like parameters in [0.1, 100], scale/mean in [1e-3, 1e3], |mu| <= 50: beyond that math.pow/exp overflow (OverflowError) is a separate numerical-range question not judged here",
    "support of exponential/gamma/Erlang/Weibull/Pearson/log-normal families judged as >= 0 and not NaN ('non-negative or positive'); inf accepted for Pearson draws",
    "a scripted stream returns an extreme value at most once per index, so 'skip 0.0 and draw again' strategies terminate",
]


class _ScriptedRandom:
    """Stands in for the random.Random wrapped by the stream: returns the
    scripted uniform at planned call indices, the real generator's otherwise
    (the real generator is advanced either way)."""

    def __init__(self, real, owner):
        self._real = real
        self._owner = owner

    def random(self):
        o = self._owner
        i = o.calls
        o.calls += 1
        v = self._real.random()
        if i in o.plan:
            o.injected += 1
            return o.plan[i]
        return v

    def seed(self, *a):
        return self._real.seed(*a)

    def getstate(self):
        return self._real.getstate()

    def setstate(self, st):
        return self._real.setstate(st)


class ScriptedStream(MersenneTwister):
    """The library's own stream with scripted uniforms injected *below* it (at
    the wrapped generator), so next_float, next_bool and next_int of the real
    class are exercised.  If a refactoring removes that seam the stream falls
    back to overriding next_float only."""

    def __init__(self, seed, plan=None):
        super().__init__(seed)
        self.plan = dict(plan or {})
        self.calls = 0
        self.injected = 0
        self._seam = hasattr(self, "_random") and hasattr(self._random, "random")
        if self._seam:
            self._random = _ScriptedRandom(self._random, self)

    def next_float(self):
        if self._seam:
            return super().next_float()
        i = self.calls
        self.calls += 1
        v = super().next_float()
        if i in self.plan:
            self.injected += 1
            return self.plan[i]
        return v


class StreamFault(Exception):
    """Injected failure of the stream (a user stream that must be refilled, an
    interrupted call)."""


class FaultyStream(ScriptedStream):
    """Fails once, at its k-th call, instead of delivering a number (the
    underlying generator advances all the same)."""

    def __init__(self, seed, plan=None, fail_at=0):
        super().__init__(seed, plan)
        self.fail_at = fail_at
        self.failed = False

    def next_float(self):
        if not self.failed and self.calls == self.fail_at:
            self.failed = True
            self.calls += 1
            if self._seam:
                self._random._real.random()
            else:
                MersenneTwister.next_float(self)
            raise StreamFault("stream failed at call %d" % self.fail_at)
        return super().next_float()


class AntitheticStream(MersenneTwister):
    """A user stream derived from the library's class that transforms the numbers in
    next_float (antithetic variates) ..."""

    def next_float(self):
        u = super().next_float()
        return 1.0 - u if u > 0.0 else 0.0

    def next_int(self, low, high, /):
        # (a user stream need not name its parameters like the abstract method does)
        return MersenneTwister.next_int(self, low, high)


class NamedAntitheticStream(AntitheticStream):
    """... and a further subclass that only adds a name: next_float is inherited from
    the intermediate class."""

    def __init__(self, seed, name="arrivals"):
        super().__init__(seed)
        self.name = name


class ValueEqStream(ScriptedStream):
    """A stream type with value semantics (as a user RNG written as a dataclass
    has): two streams are equal when seed, script and position agree."""

    def _key(self):
        return (self.seed(), self.calls, sorted(self.plan.items()))

    def __eq__(self, other):
        return isinstance(other, ValueEqStream) and self._key() == other._key()

    def __ne__(self, other):
        return not self.__eq__(other)

    __hash__ = object.__hash__


def _nonneg(x, p):
    return isinstance(x, float) and not math.isnan(x) and x >= 0.0


def _finite(x, p):
    return isinstance(x, float) and math.isfinite(x)


SPECS = {
    "Bernoulli": dict(cls=D.DistBernoulli, args=["p"],
                      regimes=[[0.0], [1e-9], [0.5], [1.0]],
                      invalid=[[-0.1], [1.5], [1], ["x"]],
                      support=lambda x, p: type(x) is int and x in (0, 1)),
    "Beta": dict(cls=D.DistBeta, args=["alpha1", "alpha2"],
                 regimes=[[0.5, 0.5], [1.0, 1.0], [2.0, 3.0], [0.1, 5.0], [5.0, 0.1], [1.0, 0.3]],
                 invalid=[[0.0, 1.0], [1.0, -1.0], ["a", 1.0]],
                 support=lambda x, p: isinstance(x, float) and 0.0 <= x <= 1.0),
    "Binomial": dict(cls=D.DistBinomial, args=["n", "p"],
                     regimes=[[1, 0.5], [5, 0.0], [5, 1.0], [20, 0.3]],
                     invalid=[[0, 0.5], [-1, 0.5], [5, 1.5], [5, -0.5], [2.5, 0.5]],
                     support=lambda x, p: type(x) is int and 0 <= x <= p[0]),
    "DiscreteUniform": dict(cls=D.DistDiscreteUniform, args=["lo", "hi"],
                            regimes=[[0, 1], [-5, 5], [1, 6], [0, 10 ** 6],
                                     [10 ** 15, 10 ** 15 + 5], [2 ** 60 + 1, 2 ** 60 + 10],
                                     [-2 ** 70 - 3, -2 ** 70 + 3]],
                            invalid=[[5, 5], [6, 5], [0.5, 3], [0, 3.5]],
                            support=lambda x, p: type(x) is int and p[0] <= x <= p[1]),
    "Constant": dict(cls=D.DistConstant, args=["constant"],
                     regimes=[[0], [3.5], [-2.0]],
                     invalid=[["c"], [None]],
                     support=lambda x, p: x == p[0]),
    "Erlang": dict(cls=D.DistErlang, args=["scale", "k"],
                   regimes=[[1.0, 1], [2.0, 3], [0.5, 9], [1.0, 10], [2.0, 11], [1.0, 50]],
                   invalid=[[0.0, 2], [-1.0, 2], [1.0, 0], [1.0, -3], [1.0, 2.5]],
                   support=_nonneg),
    "Exponential": dict(cls=D.DistExponential, args=["mean"],
                        regimes=[[1e-3], [1.0], [50.0]],
                        invalid=[[0.0], [-1.0], ["m"]],
                        support=_nonneg),
    "Gamma": dict(cls=D.DistGamma, args=["shape", "scale"],
                  regimes=[[0.1, 1.0], [0.5, 2.0], [1.0, 1.0], [1.0, 3.0], [1.5, 1.0],
                           [10.0, 0.5], [100.0, 1.0]],
                  invalid=[[0.0, 1.0], [1.0, 0.0], [-1.0, 1.0], [1.0, -2.0], ["s", 1.0]],
                  support=_nonneg),
    "Geometric": dict(cls=D.DistGeometric, args=["p"],
                      regimes=[[1e-6], [0.5], [0.999], [0.0], [1.0]],
                      invalid=[[-0.1], [1.1], [1]],
                      support=lambda x, p: type(x) is int and x >= 0),
    "NegBinomial": dict(cls=D.DistNegBinomial, args=["s", "p"],
                        regimes=[[1, 0.5], [3, 0.2], [5, 0.999], [2, 0.0], [2, 1.0]],
                        invalid=[[0, 0.5], [-1, 0.5], [2, 1.5], [2, -0.1], [1.5, 0.5]],
                        support=lambda x, p: type(x) is int and x >= 0),
    "Normal": dict(cls=D.DistNormal, args=["mu", "sigma"],
                   regimes=[[0.0, 1.0], [10.0, 0.001], [-5.0, 100.0]],
                   invalid=[[0.0, 0.0], [0.0, -1.0], ["m", 1.0]],
                   support=_finite),
    "NormalTrunc": dict(cls=D.DistNormalTrunc, args=["mu", "sigma", "lo", "hi"],
                        regimes=[[0.0, 1.0, -1.0, 1.0], [0.0, 1.0, -INF, 0.0],
                                 [0.0, 1.0, 2.0, INF], [5.0, 2.0, 4.0, 4.5],
                                 [0.0, 1.0, -INF, INF]],
                        invalid=[[0.0, 0.0, -1.0, 1.0], [0.0, 1.0, 1.0, 1.0],
                                 [0.0, 1.0, 2.0, 1.0], [0.0, -1.0, 0.0, 1.0]],
                        support=lambda x, p: isinstance(x, float) and p[2] <= x <= p[3]),
    "LogNormal": dict(cls=D.DistLogNormal, args=["mu", "sigma"],
                      regimes=[[0.0, 1.0], [1.0, 0.5], [-3.0, 2.0]],
                      invalid=[[0.0, 0.0], [0.0, -1.0]],
                      support=_nonneg),
    "Pearson5": dict(cls=D.DistPearson5, args=["alpha", "beta"],
                     regimes=[[0.5, 1.0], [1.0, 1.0], [2.0, 3.0], [10.0, 0.5], [0.1, 1.0]],
                     invalid=[[0.0, 1.0], [1.0, 0.0], [-1.0, 1.0], [1.0, -1.0]],
                     support=_nonneg),
    "Pearson6": dict(cls=D.DistPearson6, args=["alpha1", "alpha2", "beta"],
                     regimes=[[0.5, 0.5, 1.0], [1.0, 1.0, 1.0], [2.0, 3.0, 2.0],
                              [5.0, 0.3, 1.0], [0.1, 0.1, 1.0]],
                     invalid=[[0.0, 1.0, 1.0], [1.0, 0.0, 1.0], [1.0, 1.0, 0.0],
                              [-1.0, 1.0, 1.0]],
                     support=_nonneg),
    "Poisson": dict(cls=D.DistPoisson, args=["rate"],
                    regimes=[[1e-3], [1.0], [10.0], [50.0]],
                    invalid=[[0.0], [-1.0], ["r"]],
                    support=lambda x, p: type(x) is int and x >= 0),
    "Triangular": dict(cls=D.DistTriangular, args=["lo", "mode", "hi"],
                       regimes=[[0.0, 0.0, 1.0], [0.0, 1.0, 1.0], [0.0, 0.5, 1.0],
                                [-3.0, 2.0, 10.0]],
                       invalid=[[0.0, -1.0, 1.0], [0.0, 2.0, 1.0], [1.0, 1.0, 1.0],
                                ["a", 0.5, 1.0]],
                       support=lambda x, p: isinstance(x, float) and p[0] <= x <= p[2]),
    "Uniform": dict(cls=D.DistUniform, args=["lo", "hi"],
                    regimes=[[0.0, 1.0], [-5.0, 5.0], [1e6, 1e6 + 1]],
                    invalid=[[1.0, 1.0], [2.0, 1.0], ["a", 1.0]],
                    support=lambda x, p: isinstance(x, float) and p[0] <= x <= p[1]),
    "Weibull": dict(cls=D.DistWeibull, args=["alpha", "beta"],
                    regimes=[[0.1, 1.0], [1.0, 1.0], [2.0, 3.0], [50.0, 0.5]],
                    invalid=[[0.0, 1.0], [1.0, 0.0], [-1.0, 1.0], [1.0, -1.0]],
                    support=_nonneg),
}
NAMES = sorted(SPECS)
MATRIX = [(n, i) for n in NAMES for i in range(len(SPECS[n]["regimes"]))]
N_MATRIX = len(MATRIX)


def known_finding(name, params, exc):
    """Open finding D20: the documented domain of DistGeometric /
    DistNegBinomial includes p = 0.0 and p = 1.0, which do not give a usable
    distribution."""
    if name == "Geometric" and params[0] in (0.0, 1.0):
        return "D20"
    if name == "NegBinomial" and params[1] in (0.0, 1.0):
        return "D20"
    return None


def build(name, params, stream):
    return SPECS[name]["cls"](stream, *params)


def run_cell(name, params, plan, seed=7, n_draws=4):
    """One cell: (class, parameters, fault plan).  Returns (finding, info)."""
    spec = SPECS[name]
    info = {"injected": 0, "draws": 0}
    s1 = ScriptedStream(seed, plan)
    try:
        d1 = build(name, params, s1)
    except Exception as e:
        return ("valid-parameters-rejected",
                "Dist%s(%s) with parameters inside the documented domain raised %s: %s"
                % (name, dict(zip(spec["args"], params)), type(e).__name__, e)), info
    vals = []
    for k in range(n_draws):
        try:
            v = d1.draw()
        except Exception as e:
            info["injected"] = s1.injected
            return ("draw-raised",
                    "Dist%s(%s).draw() #%d raised %s: %s when the stream delivered %s"
                    % (name, dict(zip(spec["args"], params)), k, type(e).__name__, e,
                       {i: v for i, v in sorted(plan.items())})), info
        if not spec["support"](v, params):
            info["injected"] = s1.injected
            return ("outside-support",
                    "Dist%s(%s).draw() #%d returned %r, outside the support, when the "
                    "stream delivered %s" % (name, dict(zip(spec["args"], params)), k, v,
                                             {i: x for i, x in sorted(plan.items())})), info
        vals.append(v)
    info["injected"] = s1.injected
    info["draws"] = n_draws
    # twin: equal parameters on an equally scripted stream
    s2 = ScriptedStream(seed, plan)
    d2 = build(name, params, s2)
    v2 = [d2.draw() for _ in range(n_draws)]
    if v2 != vals or s2.calls != s1.calls:
        return ("twin-differs", "two Dist%s(%s) on equally scripted streams drew %s "
                "(%d uniforms) and %s (%d uniforms)"
                % (name, params, vals, s1.calls, v2, s2.calls)), info
    # isolation: two instances on their own streams, interleaved
    sa, sb = ScriptedStream(seed, plan), ScriptedStream(seed + 1)
    da, db = build(name, params, sa), build(name, params, sb)
    va = []
    for _ in range(n_draws):
        va.append(da.draw())
        db.draw()
    if va != vals:
        return ("instances-interfere", "Dist%s(%s) interleaved with a second instance "
                "drew %s, alone %s" % (name, params, va, vals)), info
    # re-pointing: the old stream is never consumed again
    sold, snew = ScriptedStream(seed, plan), ScriptedStream(seed + 5)
    dr = build(name, params, sold)
    dr.draw()
    used = sold.calls
    dr.stream = snew
    if dr.stream is not snew:
        return ("repointing-not-clean", "after Dist%s.stream = new, .stream does not "
                "return the new stream" % name), info
    after = [dr.draw() for _ in range(3)]
    if sold.calls != used:
        return ("old-stream-consumed", "after Dist%s.stream = new the old stream was "
                "consumed again (%d -> %d uniforms)" % (name, used, sold.calls)), info
    sfresh = ScriptedStream(seed + 5)
    df = build(name, params, sfresh)
    fresh = [df.draw() for _ in range(3)]
    if after != fresh:
        return ("repointing-not-clean", "after re-pointing, Dist%s(%s) drew %s; a fresh "
                "instance on an identical stream draws %s (stale cached state?)"
                % (name, params, after, fresh)), info
    # re-seeding the stream a distribution already uses and assigning that same
    # object again (streams live in a StreamInformation over replications and are
    # re-seeded per replication): from then on the draws are those of a fresh
    # instance on an equally seeded stream
    for warm in (1, 2, 3):
        try:
            sm = MersenneTwister(seed)
            dr = build(name, params, sm)
            for _ in range(warm):
                dr.draw()
            sm.set_seed(seed + 11)
            dr.stream = sm
            after = [dr.draw() for _ in range(3)]
            df = build(name, params, MersenneTwister(seed + 11))
            fresh = [df.draw() for _ in range(3)]
        except Exception:
            break               # (parameter regimes that cannot draw are judged above)
        if after != fresh or dr.stream is not sm:
            return ("repointing-not-clean", "Dist%s(%s) on a MersenneTwister: after %d draw(s) "
                    "the stream was re-seeded (set_seed) and assigned again (d.stream = same "
                    "object); it then drew %s, a fresh instance on an equally seeded stream "
                    "draws %s (stale cached state?)" % (name, params, warm, after, fresh)), info
    # re-pointing to a different stream object that compares equal (same seed,
    # same position): identity decides which stream is consumed, not equality
    for warm in (0, 1):
        sold, snew = ValueEqStream(seed, plan), ValueEqStream(seed, plan)
        dr = build(name, params, sold)
        for _ in range(warm):
            dr.draw()
        while snew.calls < sold.calls:
            snew.next_float()
        used = sold.calls
        dr.stream = snew
        if dr.stream is not snew:
            return ("repointing-not-clean", "after Dist%s.stream = an equal but distinct "
                    "stream, .stream does not return the new stream object" % name), info
        for _ in range(2):
            dr.draw()
        if sold.calls != used:
            return ("old-stream-consumed", "after Dist%s.stream = new (a distinct stream "
                    "object that compares equal to the old one) the old stream went from "
                    "%d to %d uniforms and the new one from %d to %d"
                    % (name, used, sold.calls, used, snew.calls)), info
    # fault: the stream fails once in the middle of a draw; the exception reaches
    # the caller and leaves no trace: the next draw is that of a fresh instance on
    # an identically positioned stream
    for fail_at in (0, 1, 2, 3):
        sf = FaultyStream(seed, plan, fail_at)
        try:
            df = build(name, params, sf)
        except StreamFault:
            continue
        pos = None
        for _ in range(n_draws + 2):
            try:
                df.draw()
            except StreamFault:
                pos = sf.calls
                break
            except Exception:
                break
        if pos is None:
            continue
        info["stream_faults"] = info.get("stream_faults", 0) + 1
        try:
            v_next = df.draw()
        except Exception as e:
            return ("draw-raised", "Dist%s(%s).draw() after a stream failure at uniform #%d "
                    "raised %s: %s" % (name, params, fail_at, type(e).__name__, e)), info
        used = sf.calls - pos
        st_ = ScriptedStream(seed, plan)
        while st_.calls < pos:
            st_.next_float()
        dt = build(name, params, st_)
        v_twin = dt.draw()
        if v_next != v_twin or st_.calls - pos != used:
            return ("stream-fault-left-trace", "Dist%s(%s): the stream failed at uniform #%d "
                    "in the middle of a draw; the next draw returned %r consuming %d "
                    "uniforms, a fresh instance on an identically positioned stream draws %r "
                    "consuming %d" % (name, params, fail_at, v_next, used, v_twin,
                                      st_.calls - pos)), info
    # a shallow copy is another instance: re-pointing one of the two must not
    # redirect the other (which goes on exactly like a never-copied twin)
    import copy
    for repoint_copy in (True, False):
        s0, st_ = ScriptedStream(seed, plan), ScriptedStream(seed, plan)
        d0, dt = build(name, params, s0), build(name, params, st_)
        d0.draw()
        dt.draw()
        dc = copy.copy(d0)
        snew = ScriptedStream(seed + 5)
        moved, stays = (dc, d0) if repoint_copy else (d0, dc)
        moved.stream = snew
        moved.draw()
        used_new = snew.calls
        a = [stays.draw() for _ in range(2)]
        b = [dt.draw() for _ in range(2)]
        if snew.calls != used_new or a != b or stays.stream is not s0:
            return ("instances-interfere", "Dist%s(%s): after copy.copy() and re-pointing %s "
                    "to another stream, the other instance drew %s (its own stream went to "
                    "%d uniforms, the new stream from %d to %d); a never-copied twin draws %s"
                    % (name, params, "the copy" if repoint_copy else "the original", a,
                       s0.calls, used_new, snew.calls, b)), info
    # user stream classes derived from the library's class, one and two levels deep,
    # deliver the same numbers: the draws must be the same
    try:
        d1 = build(name, params, AntitheticStream(seed))
        d2 = build(name, params, NamedAntitheticStream(seed))
        v1 = [d1.draw() for _ in range(3)]
        v2 = [d2.draw() for _ in range(3)]
    except TypeError as e:
        # (the numbers are as legal as any: only the way the stream is called can fail)
        return ("draw-raised", "Dist%s(%s) on a user stream (a MersenneTwister subclass whose "
                "next_int takes its bounds as positional-only parameters named low, high) "
                "raised TypeError: %s" % (name, params, e)), info
    except Exception:
        v1 = v2 = None
    if v1 != v2:
        return ("twin-differs", "Dist%s(%s) on two user streams that deliver identical numbers "
                "(a MersenneTwister subclass overriding next_float, and a subclass of that "
                "subclass) drew %s and %s" % (name, params, v1, v2)), info
    # deep copies and pickle round trips on the library's own plain stream class:
    # copy and original are two independent continuations of one history
    import pickle
    for how in ("deepcopy", "pickle"):
        try:
            d0 = build(name, params, MersenneTwister(seed))
            dt = build(name, params, MersenneTwister(seed))
            d0.draw()
            dt.draw()
        except Exception:
            break               # (parameter regimes that cannot draw are judged above)
        dc = copy.deepcopy(d0) if how == "deepcopy" else pickle.loads(pickle.dumps(d0))
        try:
            c_vals = [dc.draw() for _ in range(3)]       # the clone draws first ...
            o_vals = [d0.draw() for _ in range(3)]       # ... then the original
            t_vals = [dt.draw() for _ in range(3)]
        except Exception:
            break
        if o_vals != t_vals or c_vals != t_vals:
            return ("instances-interfere", "Dist%s(%s) on a plain MersenneTwister(%d): after "
                    "one draw a %s was taken; the clone then drew %s, the original %s; a "
                    "never-copied twin draws %s (both must continue like the twin)"
                    % (name, params, seed, how, c_vals, o_vals, t_vals)), info
    return None, info


def check_invalid(name):
    spec = SPECS[name]
    for params in spec["invalid"]:
        try:
            build(name, params, MersenneTwister(1))
        except (TypeError, ValueError):
            continue
        except Exception as e:
            return ("invalid-parameters-wrong-error",
                    "Dist%s(%s) outside the documented domain raised %s instead of "
                    "TypeError/ValueError" % (name, params, type(e).__name__))
        return ("invalid-parameters-accepted", "Dist%s(%s) outside the documented domain "
                "was accepted" % (name, dict(zip(spec["args"], params))))
    return None


def check_wrapper(name, params):
    spec = SPECS[name]
    if known_finding(name, params, None):
        return None
    s1, s2 = ScriptedStream(3), ScriptedStream(3)
    inner = build(name, params, s1)
    twin = build(name, params, s2)
    q = DurationDist(inner, "min")
    for _ in range(2):
        a = q.draw()
        b = twin.draw()
        if not math.isfinite(b):
            continue
        if not isinstance(a, Duration) or a.unit != "min" or float(a) != Duration(b, "min").si:
            return ("quantity-wrapper", "DurationDist(Dist%s, 'min').draw() returned %r "
                    "for an inner draw of %r" % (name, a, b))
    return None


def check_all_wrappers():
    """Every quantity-valued wrapper draws in the unit it was given, for every
    declared unit of its quantity (a finite table, enumerated once per run)."""
    import inspect
    from pydsol.core import units as U
    n = 0
    for cname, cls in sorted(vars(U).items()):
        if not (inspect.isclass(cls) and issubclass(cls, U.QuantityDist)
                and cls is not U.QuantityDist and hasattr(cls, "quantity")):
            continue
        q = cls.quantity
        for unit in q._units:
            s1, s2 = ScriptedStream(11), ScriptedStream(11)
            w = cls(D.DistUniform(s1, 1.0, 3.0), unit)
            twin = D.DistUniform(s2, 1.0, 3.0)
            a = w.draw()
            b = twin.draw()
            n += 1
            exp = q(b, unit)
            if type(a) is not q or a.unit != unit or float(a) != float(exp):
                return ("quantity-wrapper", "%s(DistUniform(1,3), %r).draw() returned %r "
                        "(si %r) for an inner draw of %r; expected %r"
                        % (cname, unit, a, float(a), b, exp)), n
        try:
            cls(D.DistUniform(ScriptedStream(1), 1.0, 3.0), "no-such-unit")
            return ("quantity-wrapper", "%s accepted the unit 'no-such-unit'" % cname), n
        except (ValueError, TypeError):
            pass
    return None, n


def random_params(rng, name):
    def sh():
        return rng.choice([0.1, 0.3, 0.5, 0.9, 1.0, 1.0, 1.5, 2.0, 5.0, 20.0, 100.0,
                           round(rng.uniform(0.1, 10), 3)])

    def sc():
        return rng.choice([1e-3, 0.1, 1.0, 2.0, 10.0, 1e3, round(rng.uniform(0.01, 50), 3)])

    def pr():
        return rng.choice([1e-9, 1e-3, 0.1, 0.5, 0.9, 0.999, 1 - 1e-12,
                           round(rng.random(), 4) or 0.5])
    if name == "Bernoulli":
        return [rng.choice([0.0, 1.0, pr()])]
    if name == "Beta":
        return [sh(), sh()]
    if name == "Binomial":
        return [rng.choice([1, 2, 5, 30]), rng.choice([0.0, 1.0, pr()])]
    if name == "DiscreteUniform":
        lo = rng.choice([rng.randint(-100, 100), 10 ** 15, 1700000000000, 2 ** 60 + 1])
        return [lo, lo + rng.choice([1, 2, 5, 10, 10 ** 9])]
    if name == "Constant":
        return [rng.choice([0, 1, -1.5, 1e9])]
    if name == "Erlang":
        return [sc(), rng.choice([1, 2, 5, 9, 10, 11, 25])]
    if name == "Exponential":
        return [sc()]
    if name == "Gamma":
        return [sh(), sc()]
    if name == "Geometric":
        return [pr()]
    if name == "NegBinomial":
        return [rng.choice([1, 2, 7]), pr()]
    if name in ("Normal", "LogNormal"):
        return [rng.choice([0.0, 1.0, -3.0, 10.0, round(rng.uniform(-20, 20), 2)]),
                rng.choice([1e-3, 0.5, 1.0, 3.0])]
    if name == "NormalTrunc":
        mu = rng.choice([0.0, 5.0, -2.0])
        sg = rng.choice([0.5, 1.0, 3.0])
        lo = mu + sg * rng.choice([-INF, -3, -1, 0, 1, 2])
        hi = lo + sg * rng.choice([0.5, 1, 2, 6]) if lo != -INF else mu + sg * rng.choice([-1, 0, 2, INF])
        if rng.random() < 0.2:
            hi = INF
        return [mu, sg, lo, hi]
    if name == "Pearson5":
        return [sh(), sc()]
    if name == "Pearson6":
        return [sh(), sh(), sc()]
    if name == "Poisson":
        return [rng.choice([1e-3, 0.5, 1.0, 7.5, 30.0])]
    if name == "Triangular":
        lo = rng.choice([0.0, -5.0, 100.0])
        hi = lo + rng.choice([1.0, 10.0, 1e-3])
        return [lo, rng.choice([lo, hi, (lo + hi) / 2]), hi]
    if name == "Uniform":
        lo = rng.choice([0.0, -5.0, 1e6])
        return [lo, lo + rng.choice([1.0, 1e-3, 100.0])]
    if name == "Weibull":
        return [sh(), sc()]
    raise ValueError(name)


def generate(seed, tier, idx=0):
    rng = common.rng_for(seed, "case")
    if idx < N_MATRIX:
        name, ri = MATRIX[idx]
        return {"kind": "matrix", "name": name, "regime": ri}
    name = rng.choice(NAMES)
    params = random_params(rng, name)
    k = rng.choice([0, 1, 1, 2, 3])
    plan = {str(rng.randrange(10)): rng.choice(EXTREMES) for _ in range(k)}
    return {"kind": "random", "name": name, "params": params, "plan": plan,
            "seed": rng.randrange(1, 10 ** 6)}


def matrix_plans():
    plans = [{}]
    for pos in range(4):
        for v in EXTREMES:
            plans.append({pos: v})
    for i in range(4):
        for j in range(i + 1, 4):
            for v1 in EXTREMES:
                for v2 in EXTREMES:
                    plans.append({i: v1, j: v2})
    return plans


def execute(case):
    cnt = {}
    name = case["name"]
    spec = SPECS[name]
    res = {"clean": True, "counters": cnt, "nontrivial": False, "case_digest": 0}
    finding = None
    fail_case = None
    known = None
    digs = []
    n_eval = 0
    if case["kind"] == "matrix":
        params = spec["regimes"][case["regime"]]
        finding = check_invalid(name) if case["regime"] == 0 else None
        if finding is None and case["regime"] == 0 and name == NAMES[0]:
            finding, nw = check_all_wrappers()
            cnt["quantity_wrapper_units_checked"] = nw
        if finding is None:
            finding = check_wrapper(name, params)
        for plan in matrix_plans():
            if finding:
                break
            f, info = run_cell(name, params, plan)
            n_eval += 1
            cnt["fault:extreme_uniform"] = cnt.get("fault:extreme_uniform", 0) + info["injected"]
            cnt["fault:stream_failure"] = cnt.get("fault:stream_failure", 0) + info.get("stream_faults", 0)
            if info["injected"]:
                digs.append(common.digest8([name, params, sorted(plan.items())]))
            if f:
                kf = known_finding(name, params, f)
                if kf and f[0] in ("valid-parameters-rejected", "draw-raised"):
                    known = (kf, f)
                    break       # every cell of this regime is the same finding
                finding = f
                fail_case = {"kind": "random", "name": name, "params": params,
                             "plan": {str(k): v for k, v in plan.items()}, "seed": 7}
        cnt["matrix_cells"] = n_eval
        cnt["matrix_groups"] = 1
    else:
        params = case["params"]
        plan = {int(k): v for k, v in case["plan"].items()}
        f, info = run_cell(name, params, plan, seed=case.get("seed", 7), n_draws=12)
        n_eval = 1
        cnt["fault:extreme_uniform"] = info["injected"]
        cnt["fault:stream_failure"] = info.get("stream_faults", 0)
        cnt["random_cells"] = 1
        if info["injected"]:
            digs.append(common.digest8([name, params, sorted(plan.items())]))
        if f:
            kf = known_finding(name, params, f)
            if kf and f[0] in ("valid-parameters-rejected", "draw-raised"):
                known = (kf, f)
            else:
                finding = f
    cnt["class:" + name] = 1
    res["evaluations"] = max(n_eval, 1)
    res["nontrivial_digests"] = digs
    res["digest"] = common.digest([case, finding, known and known[1]])
    res["observed"] = {"class": name, "params": params}
    if finding:
        res["status"] = "violation"
        res["check_id"], res["message"] = finding
        if fail_case:
            res["fail_case"] = fail_case
    elif known:
        res["status"] = "violation"
        res["finding"] = known[0]
        res["check_id"], res["message"] = known[1]
    else:
        res["status"] = "ok"
    return res


def case_size(case):
    return {"plan": len(case.get("plan", {}))}


def shrink(case, fails):
    if case["kind"] != "random":
        return case
    import copy
    case = copy.deepcopy(case)
    for k in sorted(case["plan"]):
        p2 = {a: b for a, b in case["plan"].items() if a != k}
        if fails(dict(case, plan=p2)):
            case["plan"] = p2
    return case


def extra_evidence(agg, tier):
    return {"exhaustive_sublayer": {
        "what": "fault matrix: %d (class, regime) groups x (1 + 4x5 single + 6x25 pair) "
                "placements of extreme uniforms among the first 4 uniform positions"
                % N_MATRIX,
        "groups": agg.counters.get("matrix_groups", 0),
        "cells": agg.counters.get("matrix_cells", 0)}}
