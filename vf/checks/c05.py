"""C05 — fault containment: a failing handler never loses, duplicates or
reorders events (log/warn-and-continue, warn-and-pause, step)."""
import copy

from vf import common, program, simrun, devscommon, lifecycle, shrink as shr
from vf.models.refdevs import OK

PROPERTY = "C05"
LEVEL = "fault_enumeration"
BUDGET = {"quick": 1500, "thorough": 200000}
WALL_CAP = {"quick": 200, "thorough": 3300}
CHUNK = 20
RULE = ("one evaluation = (model program, fault plan, error strategy, mode) run "
        "on the real simulator: fault plan = which executed handlers raise "
        "(exception type from 6 classes, raised before / in the middle of / "
        "after the handler's own scheduling actions); strategy in "
        "{LOG_AND_CONTINUE, WARN_AND_CONTINUE, WARN_AND_PAUSE}; mode in {start, "
        "bounded runs, steps}. For every generated program with <= 12 executed "
        "events EVERY single executed event is made to fail once under every "
        "strategy and mode (enumerated); larger programs get random plans of "
        "1-3 faults. non-trivial = a fault fired while later events were still "
        "pending; distinct = digest of (program with plan, strategy, mode)")
COMPONENTS = {
    "real": ["pydsol.core.simulator (run loop except-branch, step(), error strategies, run thread)",
             "pydsol.core.simevent (execute wraps handler exceptions)",
             "pydsol.core.eventlist", "pydsol.core.pubsub"],
    "stub": ["threading.Event/Lock (cooperative)", "time.time/sleep (virtual clock)",
             "stdout/stderr/logging (sunk)"]}
ASSUMPTIONS = [
    "terminating strategies WARN_AND_END / WARN_AND_EXIT and failing listeners are out of scope (statement)",
    "a failing step() may return normally or raise DSOLError; any other exception class is a violation",
]
MY_CHECKS = {"resume-without-progress", "trace-mismatch", "state-after-command", "clock-after-command",
             "command-outcome", "command-raised-non-dsol-error", "stream-grammar",
             "no-quiescence", "final-clock", "harness", "run-thread-liveness",
             "clock-backwards"}
MODES = ["start", "bounded", "steps"]
POS = ["before", "middle", "after"]
POS_RANDOM = ["before", "middle", "after", "signature"]


def init_worker():
    simrun.install()


def with_faults(prog, plan, switch=None):
    """plan: list of (eid, position, exception name); switch: optional
    (eid, strategy): that handler changes the error strategy when it runs."""
    p = copy.deepcopy(prog)
    if switch is not None:
        p["events"][str(switch[0])].insert(0, ["strategy", switch[1]])
    for eid, pos, exc in plan:
        al = p["events"][str(eid)]
        if pos == "signature":
            # the call of the handler itself fails (keyword mismatch); not for events
            # that are pre-built objects
            lists = [p["roots"], p.get("initial", [])] + list(p["events"].values())
            how = [a[0] for l in lists for a in l if program.child_of(a) == int(eid)]
            if how and how[0] != "pre":
                p.setdefault("badsig", []).append(int(eid))
                continue
            pos = "before"
        i = {"before": 0, "middle": len(al) // 2, "after": len(al)}[pos]
        al.insert(i, ["fail", exc])
    return p


def build_case(prog, plan, strategy, mode, k=0, switch=None):
    p = with_faults(prog, plan, switch)
    case = {"program": p, "strategy": strategy, "mode": mode,
            "plan": [list(x) for x in plan], "sched": {"kind": "S0"}}
    ref = devscommon.make_ref(case)
    ref.initialize()
    cmds = [["initialize"], ["settle"]]
    guard = 0
    while ref.run_state != "ENDED" and guard < 200:
        guard += 1
        if not ref.can_start():
            break
        if mode == "steps" and not ref.step_at_boundary():
            ref.step()
            cmds += [["step"], ["settle"]]
        elif mode == "bounded" and ref.pending_times() and guard < 40:
            times = [t for t in ref.pending_times() if ref.clock <= t <= ref.end]
            if not times:
                ref.run(ref.end, True)
                cmds += [["start"], ["settle"]]
                continue
            t = times[min(len(times) - 1, (guard + k) % 3)]
            if (guard + k) % 2 and t + 0.25 <= ref.end and prog["clock"] != "int":
                t = t + 0.25
            ref.run(t, True)
            cmds += [["run_up_to_incl", t], ["settle"]]
            if t >= ref.end:
                break
        else:
            ref.run(ref.end, True)
            cmds += [["start"], ["settle"]]
    case["commands"] = cmds
    return case


def executed_ids(prog):
    case = {"program": prog, "strategy": 1}
    ref = devscommon.make_ref(case)
    ref.initialize()
    ref.run(ref.end, True)
    return [e for _, e in ref.trace if e != "W"]


def generate(seed, tier, idx=0):
    rng = common.rng_for(seed, "case")
    big = rng.random() < 0.25
    prog = program.gen_program(
        rng, n_events=rng.choice([15, 20, 30, 40]) if big else rng.randint(2, 10),
        p_cancel=rng.choice([0.0, 0.1, 0.2]))
    if prog["clock"] == "int":
        prog["rep"] = [int(x) for x in prog["rep"]]
    ids = executed_ids(prog)
    if ids and rng.random() < 0.3:
        plan = [(rng.choice(ids), rng.choice(POS_RANDOM), rng.choice(program.EXCS))
                for _ in range(rng.randint(1, 2))]
        return polling_case(rng, seed, prog, list({p[0]: p for p in plan}.values()))
    if len(ids) <= 12:
        return {"program": prog, "enumerate": True, "seed": seed}
    plan = [(rng.choice(ids), rng.choice(POS_RANDOM), rng.choice(program.EXCS))
            for _ in range(rng.randint(1, 3))]
    plan = list({p[0]: p for p in plan}.values())
    switch = (rng.choice(ids), rng.choice([1, 2, 3])) if rng.random() < 0.3 else None
    c = build_case(prog, plan, rng.choice([1, 2, 3]), rng.choice(MODES), rng.randint(0, 5),
                   switch)
    if rng.random() < 0.25:
        c["log_level"] = rng.choice([0, 10, 30, 50])
    if rng.random() < 0.35:
        return polling_case(rng, seed, prog, plan)
    if rng.random() < 0.3:
        c["sched"] = {"kind": rng.choice(["pct", "site"]), "seed": seed, "p": 0.01,
                      "q": 0.15, "d": rng.choice([1, 2]),
                      "step_cost_us": rng.choice([0, 10])}
    return c


def polling_case(rng, seed, prog, plan):
    """warn-and-pause under a real caller idiom: start(), wait until the
    simulator reports STOPPED/ENDED, start() again at once - with the run thread
    pre-empted at seeded points; resuming must execute exactly the rest."""
    p = with_faults(prog, plan)
    n = len(plan) + 2
    cmds = [["initialize"]]
    for _ in range(n):
        cmds += [["start"], ["poll_stopped"]]
    cmds += [["settle"], ["drain", 6], ["settle"]]
    case = {"program": p, "strategy": 3, "mode": "polling", "plan": [list(x) for x in plan],
            "commands": cmds,
            "sched": {"kind": rng.choice(["pct", "site", "site"]), "seed": seed,
                      "p": rng.choice([0.02, 0.005]), "q": rng.choice([0.3, 0.15]),
                      "d": rng.choice([1, 2, 3]), "step_cost_us": rng.choice([0, 1, 10])}}
    if rng.random() < 0.4:
        # fault 'eager poller' (see simrun.Runner._eager)
        case["sched"]["eager"] = [rng.choice([0.5, 0.01]),
                       rng.choice([0, 1, 2, 3, 4, 6, 8, 10, 12, 15, 20, 25, 30, 40, 60])]
    if rng.random() < 0.15:
        case["sched"]["opcodes"] = True      # pre-emption between bytecodes of simulator.py
    if rng.random() < 0.4:
        case["sched"]["refill"] = True       # pre-emption budget per command instead of per run
    return case


def run_polling(case):
    r = simrun.Runner(case).run()
    findings = []
    H = r.hist.H
    if r.aborted:
        findings.append(("no-quiescence", "run aborted: %s" % r.aborted))
    else:
        ref = devscommon.make_ref(case)
        ref.initialize()
        guard = 0
        while ref.run_state != "ENDED" and guard < 100 and ref.can_start():
            ref.run(ref.end, True)
            guard += 1
        got = devscommon.executed(H)
        exp = devscommon.ref_trace(ref, r)
        d = devscommon.describe_trace_diff(got, exp)
        if d is not None:
            findings.append(("trace-mismatch", "warn-and-pause with a polling caller "
                             "(start, wait for STOPPED, start ...): " + d[1]))
        elif r.final[:2] != ("ENDED", "ENDED"):
            findings.append(("state-after-command", "after resuming until the end the "
                             "simulator reports %s" % (r.final[:3],)))
        cmds = devscommon.split_history(H)
        # every accepted start() must make progress while events remain
        starts = [c for c in cmds if c["name"] == "start" and not c["callback"]]
        total = len(exp)
        for k, c in enumerate(starts):
            if c.get("outcome") != "ok" or findings:
                continue
            lo = c["invoke_pos"]
            hi = starts[k + 1]["invoke_pos"] if k + 1 < len(starts) else len(H)
            done_before = len(devscommon.executed(H, lo))
            done_after = len(devscommon.executed(H, hi))
            if done_before < total and done_after == done_before \
                    and not case["program"].get("badsig"):
                findings.append(("resume-without-progress",
                                 "start #%d was accepted after a pause with %d of %d events "
                                 "still to run, returned normally, and nothing was executed "
                                 "before the caller's next command"
                                 % (c["index"], total - done_before, total)))
        for c in cmds:
            o = c.get("outcome") or ""
            if o.startswith("exc:"):
                findings.append(("command-raised-non-dsol-error",
                                 "command #%d %s raised %s" % (c["index"], c["name"], o)))
                break
    fired = r.faults.get("handler_raise", 0)
    return r, findings, fired, fired > 0 and r.det.n_switch > 0


def run_single(case):
    if case.get("mode") == "polling":
        return run_polling(case)
    r = simrun.Runner(case).run()
    findings, info = devscommon.evaluate_sequential(case, r)
    H = r.hist.H
    ref = info.get("ref")
    if info.get("invalid"):
        findings = []
    elif ref is not None:
        ref0 = devscommon.make_ref(case)
        findings += lifecycle.check_stream(H, lambda rp: r.ref_time(ref0.warmup_time),
                                           silent_failures=bool(case["program"].get("badsig")))
        findings += lifecycle.check_balanced_at_end(H)
        if not findings and r.final[:2] == ("ENDED", "ENDED") \
                and r.final[2] != r.ref_time(ref.end):
            findings.append(("final-clock", "final clock %s, end %s"
                             % (r.final[2], r.ref_time(ref.end))))
    findings = [f for f in findings if f[0] in MY_CHECKS]
    fired = r.faults.get("handler_raise", 0)
    # non-trivial: a fault fired while later events were still pending
    nontrivial = False
    if fired and ref is not None:
        raises = [i for i, q in enumerate(ref.requests) if q[2] == "raise"]
        if raises:
            first_owner = ref.requests[raises[0]][0]
            tr = [e for _, e in ref.trace]
            if first_owner in tr and tr.index(first_owner) < len(tr) - 1:
                nontrivial = True
    return r, findings, fired, nontrivial


def execute(case):
    cnt = {}
    sums = {"sim_wall_seconds": 0.0, "yield_points": 0}
    if case.get("enumerate"):
        prog = case["program"]
        ids = executed_ids(prog)
        n = 0
        digs = []
        clean = True
        digest = None
        k = 0
        for j, eid in enumerate(ids):
            for strategy in (1, 2, 3):
                for mode in MODES:
                    pos = POS[(j + strategy + k) % 3]
                    exc = program.EXCS[(j + k) % len(program.EXCS)]
                    k += 1
                    switch = None
                    if k % 3 == 0 and j > 0:
                        # an earlier handler switches to another strategy mid-run
                        switch = (ids[0], 1 + (strategy + k // 3) % 3)
                    sub = build_case(prog, [(eid, pos, exc)], strategy, mode, k, switch)
                    if k % 4 == 1:
                        sub["log_level"] = (10, 50, 0, 30)[(k // 4) % 4]
                    r, findings, fired, nontriv = run_single(sub)
                    n += 1
                    clean = clean and r.clean
                    digest = r.digest()
                    sums["sim_wall_seconds"] += r.det.clock - r.det.t0
                    sums["yield_points"] += r.det.step
                    cnt["fault:handler_raise"] = cnt.get("fault:handler_raise", 0) + fired
                    cnt["strategy_%d" % strategy] = cnt.get("strategy_%d" % strategy, 0) + 1
                    cnt["mode_" + mode] = cnt.get("mode_" + mode, 0) + 1
                    if nontriv:
                        digs.append(common.digest8([sub["program"], strategy, mode]))
                    if findings or not r.clean:
                        res = {"status": "violation" if findings else "ok",
                               "digest": digest, "clean": r.clean, "evaluations": n,
                               "counters": cnt, "sums": sums,
                               "nontrivial_digests": digs, "fail_case": sub}
                        if findings:
                            res["check_id"], res["message"] = findings[0]
                            if findings[0][0] == "harness":
                                res["status"] = "harness"
                            return res
        cnt["enumerated_programs"] = 1
        cnt["enumerated_single_fault_plans"] = n
        return {"status": "ok", "digest": digest, "clean": clean, "evaluations": max(n, 1),
                "counters": cnt, "sums": sums, "nontrivial_digests": digs,
                "nontrivial": False, "case_digest": 0,
                "observed": {"executed_ids": ids, "sub_runs": n}}
    r, findings, fired, nontriv = run_single(case)
    cnt["fault:handler_raise"] = fired
    cnt["strategy_%d" % case["strategy"]] = 1
    cnt["mode_" + case.get("mode", "start")] = 1
    cnt["random_plans"] = 1
    if r.det.n_switch:
        cnt["fault:preempt"] = r.det.n_switch
    res = {"digest": r.digest(), "clean": r.clean, "counters": cnt,
           "final_case": devscommon.replay_form(case, r),
           "sums": {"sim_wall_seconds": r.det.clock - r.det.t0,
                    "yield_points": r.det.step},
           "nontrivial": nontriv,
           "case_digest": common.digest8([case["program"], case["strategy"],
                                          case.get("mode")]),
           "observed": {"plan": case.get("plan"), "final": r.final}}
    if findings:
        res["status"] = "violation"
        res["check_id"], res["message"] = findings[0]
        if findings[0][0] == "harness":
            res["status"] = "harness"
    else:
        res["status"] = "ok"
    return res


def case_size(case):
    p = case["program"]
    return {"events": len(p["events"]), "commands": len(case.get("commands", [])),
            "faults": program.count_actions(p, "fail")}


def shrink(case, fails):
    if case.get("enumerate"):
        return case
    return shr.shrink_devs_case(case, fails)


def extra_evidence(agg, tier):
    return {"exhaustive_sublayer": {
        "what": "for every generated program with <= 12 executed events: each single "
                "executed event fails once under each of 3 strategies x 3 modes",
        "programs": agg.counters.get("enumerated_programs", 0),
        "single_fault_plans": agg.counters.get("enumerated_single_fault_plans", 0)}}
