"""C10 — weighted and time-weighted tallies compute weight/time integrals of
their input; queries total; regressing timestamps rejected; closed tallies
ignore observations until re-initialised."""
import math

from vf import common, shrink as shr, twothread
from vf.models import refstats

common.use_repo()
from pydsol.core.interfaces import StatEvents                    # noqa: E402
from pydsol.core.pubsub import EventListener                      # noqa: E402
from pydsol.core.units import Duration                            # noqa: E402
from pydsol.core.statistics import (WeightedTally, TimestampWeightedTally,   # noqa: E402
                                    EventBasedWeightedTally,
                                    EventBasedTimestampWeightedTally)
import pydsol.core.statistics as _statmod                         # noqa: E402

PROPERTY = "C10"
LEVEL = "exploration"
BUDGET = {"quick": 30000, "thorough": 2000000}
WALL_CAP = {"quick": 150, "thorough": 3000}
CHUNK = 300
RULE = ("one case = a history over a WeightedTally / TimestampWeightedTally or their "
        "event-publishing forms without and with a subscriber: register(valid), "
        "register(rejected: NaN value/weight, negative weight, str, None; regressing "
        "or NaN timestamp), initialize(), end_observations(t >= last), register "
        "after close, refused end_observations (regressing / NaN / str / None time) on "
        "an open tally, query-everything; weights incl. 0 and all-zero, equal values, "
        "timestamps with repeats. Oracle: exact rational weighted sums / exact "
        "integral of the piecewise-constant signal between the first timestamp and "
        "the end time; NaN exactly where undefined (no observations, zero total "
        "weight, fewer than two positively weighted observations for the sample "
        "forms); rejected calls change nothing; nothing reported changes after "
        "closing until initialize. 15 % of the cases are two-thread cases (a writer "
        "thread registers / closes, the driver thread queries, seeded pre-emption at the "
        "lines of statistics.py; state after both finished == definition). non-trivial = at least 3 accepted observations "
        "of which one has zero weight / a repeated timestamp, or the tally was "
        "closed; distinct = digest of the history")
COMPONENTS = {"real": ["pydsol.core.statistics (WeightedTally, TimestampWeightedTally, EventBased variants)",
                       "pydsol.core.pubsub"],
              "stub": ["threading.Thread.start / thread scheduling (baton scheduler, two-thread layer only)"]}
ASSUMPTIONS = ["weak fit for the single-caller layer (history + exact reference model, no scheduler or clock); the two-thread layer runs a registering and a querying caller thread under the baton scheduler and judges only the state after both have finished (values read during the overlap and concurrent registration from two threads are not judged: the property does not promise them)",
               "weighted_mean() with zero total weight must merely not raise",
               "int timestamps beyond 2**53 (nanosecond clocks) are only offered to the plain TimestampWeightedTally as plain ints: the event-publishing variants and quantity observations convert timestamps to float, which the property does not forbid",
               "n/min/max of the timestamp variant and last_value() after close are not judged (docstring and code disagree; the property is silent)"]

W_GETTERS = [("n",), ("min",), ("max",), ("weighted_sum",), ("weighted_mean",),
             ("weighted_variance",), ("weighted_variance", False),
             ("weighted_stdev",), ("weighted_stdev", False)]
T_JUDGED = ["weighted_sum", "weighted_mean", "weighted_variance",
            "weighted_variance(unbiased)", "weighted_stdev", "weighted_stdev(unbiased)"]
EVENT_GETTER = {
    "N_EVENT": ("n",), "MIN_EVENT": ("min",), "MAX_EVENT": ("max",),
    "WEIGHTED_SUM_EVENT": ("weighted_sum",), "WEIGHTED_MEAN_EVENT": ("weighted_mean",),
    "WEIGHTED_POPULATION_STDEV_EVENT": ("weighted_stdev",),
    "WEIGHTED_POPULATION_VARIANCE_EVENT": ("weighted_variance",),
    "WEIGHTED_SAMPLE_STDEV_EVENT": ("weighted_stdev", False),
    "WEIGHTED_SAMPLE_VARIANCE_EVENT": ("weighted_variance", False)}


def init_worker():
    twothread.install(_statmod)


def gname(g):
    return g[0] + ("" if len(g) == 1 else "(unbiased)")


def gen_threaded(rng, seed):
    """Two caller threads share one tally: one registers (and closes), the other
    queries while that goes on, with seeded pre-emption inside statistics.py.
    Only the state after both have finished is judged."""
    kind = rng.choice(["weighted", "timestamp"])
    n = rng.choice([1, 2, 3, 4, 6, 10])
    ops = []
    t = rng.choice([0.0, 1.0, 10.0])
    for _ in range(n):
        v = rng.choice([rng.randint(-4, 9), rng.randint(-40, 40) / 8.0, 2.5])
        if kind == "weighted":
            ops.append(["reg", rng.choice([0.0, 0.5, 1.0, 2.0, 3.5]), v])
        else:
            t = t + rng.choice([0, 0.5, 1, 2, 0.25])
            ops.append(["reg", t, v])
    if kind == "timestamp" and rng.random() < 0.7:
        ops.append(["end", t + rng.choice([0, 0.5, 2])])
    return {"kind": kind, "variant": rng.choice(["plain", "event"]), "threaded": True,
            "ops": ops, "queries": rng.choice([1, 2, 3, 6]),
            "sched": {"seed": seed, "p": rng.choice([0.02, 0.1, 0.3]),
                      "d": rng.choice([2, 4, 8, 20])}}


def run_threaded(case):
    info = {"accepted": 0, "rejected": 0, "special": 0, "closed": 0, "published": 0}
    kind = case["kind"]
    if kind == "weighted":
        st = WeightedTally("w") if case["variant"] == "plain" else EventBasedWeightedTally("w")
    else:
        st = TimestampWeightedTally("p") if case["variant"] == "plain" \
            else EventBasedTimestampWeightedTally("p")

    def writer():
        for op in case["ops"]:
            if op[0] == "reg":
                st.register(op[1], op[2])
            else:
                st.end_observations(op[1])

    def reader():
        for _ in range(case["queries"]):
            read(st)

    init_worker()          # (idempotent; the shrinker evaluates in forks of the parent)
    det, errors = twothread.run_two(case["sched"], writer, reader)
    info["switches"] = det.n_switch
    info["schedule"] = [det.ydigest, det.step, [list(d) for d in det.decisions]]
    if det.aborted:
        return ("harness", "two-thread run aborted: %s" % det.aborted), info
    for who, name, msg in errors:
        if who == "writer":
            return ("register-raised", "with a second thread querying the tally, the "
                    "registering thread raised %s: %s" % (name, msg)), info
    obs, closed_at = [], None
    for op in case["ops"]:
        if op[0] == "end":
            closed_at = op[1]
            info["closed"] += 1
        elif kind == "timestamp" and obs and obs[-1][0] == op[1]:
            obs[-1] = (op[1], op[2])
        else:
            obs.append((op[1], op[2]))
        info["accepted"] += 1
    if kind == "weighted":
        ex = refstats.weighted_exact(obs)
        names = [gname(g) for g in W_GETTERS]
    else:
        ex = refstats.signal_exact(obs, closed_at)
        names = T_JUDGED
    got = read(st)
    for name in names:
        if isinstance(got[name], str):
            return ("getter", "after both threads have finished %s() %s" % (name, got[name])), info
        exact, tol = ex[name]
        msg = refstats.compare(name, got[name], exact, tol)
        if msg:
            return ("getter", "one thread registered %s while another queried the tally "
                    "(%d thread switches inside statistics.py); after both have finished: %s"
                    % (case["ops"][:5], det.n_switch, msg)), info
    return None, info


def run_giant(case):
    """Hundreds of thousands of observations on one tally (a long replication with a
    busy statistic): integer data, exact sums as reference, relative tolerance 1e-7."""
    import random as _random
    from fractions import Fraction
    rng = _random.Random(case["seed"])
    info = {"accepted": case["n"], "rejected": 0, "special": 1, "closed": 0, "published": 0}
    if case["kind2"] == "weighted":
        st = WeightedTally("w")
    else:
        st = TimestampWeightedTally("p")
    s0 = s1 = s2 = 0
    t = 0
    prev = None
    for _ in range(case["n"]):
        v = rng.randrange(0, 10)
        if case["kind2"] == "weighted":
            w = rng.randrange(1, 4)
            st.register(float(w), float(v))
            s0 += w
            s1 += w * v
            s2 += w * v * v
        else:
            dt = rng.randrange(1, 4)
            if prev is not None:
                s0 += dt
                s1 += dt * prev
                s2 += dt * prev * prev
            t += dt
            st.register(float(t), float(v))
            prev = v
    if case["kind2"] != "weighted":
        st.end_observations(float(t + 2))
        s0 += 2
        s1 += 2 * prev
        s2 += 2 * prev * prev
    mean = Fraction(s1, s0)
    var = Fraction(s2, s0) - mean * mean
    for name, exact in (("weighted_sum", Fraction(s1)), ("weighted_mean", mean),
                        ("weighted_variance", var)):
        got = getattr(st, name)()
        if not isinstance(got, float) or abs(Fraction(got) - exact) > abs(exact) * Fraction(1, 10 ** 7):
            return ("getter", "after %d observations on one %s tally %s() returns %r, the "
                    "definition gives %.12g (relative tolerance 1e-7)"
                    % (case["n"], case["kind2"], name, got, float(exact))), info
    return None, info


def generate(seed, tier, idx=0):
    rng = common.rng_for(seed, "case")
    if rng.random() < (1e-4 if tier == "quick" else 1e-3):
        return {"kind": "giant", "kind2": rng.choice(["weighted", "timestamp"]), "variant": "plain",
                "n": rng.choice([260000, 520000]), "seed": rng.getrandbits(32), "ops": []}
    if rng.random() < 0.15:
        return gen_threaded(rng, seed)
    kind = rng.choice(["weighted", "timestamp"])
    variant = rng.choice(["plain", "event", "event+sub", "event+sub"])
    sizes = [0, 1, 2, 3, 5, 8, 12, 20, 40]
    if tier == "thorough":
        sizes += [100, 400, 1500]
    n = rng.choice(sizes)
    valreg = rng.choice(["ints", "dyadic", "equal", "offset", "uniform"])
    # 'wild': values and weights spanning dozens of orders of magnitude; there only
    # "every query returns a value or NaN and never raises" is judged
    wild = rng.random() < 0.06

    def val():
        if wild:
            return rng.choice([-1, 1]) * rng.choice([1.0, 2.5, 9.99]) * 10.0 ** rng.randint(-5, 16)
        if valreg == "ints":
            return rng.randint(-4, 9)
        if valreg == "dyadic":
            return rng.randint(-40, 40) / 8.0
        if valreg == "equal":
            return 2.5
        if valreg == "offset":
            return 1e4 + rng.uniform(-1, 1)
        return rng.random() * 10
    ops = []
    if kind == "weighted":
        wreg = rng.choice(["mixed", "mixed", "allzero", "ones", "tiny"])
        for _ in range(n):
            if wreg == "allzero":
                w = 0.0
            elif wreg == "ones":
                w = 1.0
            elif wreg == "tiny":
                w = rng.choice([0.0, 1e-9, 1e-3, 1.0])
            else:
                w = rng.choice([0, 0.0, 0.5, 1, 1.0, 2, 3.5, 10.0])
            if wild and rng.random() < 0.8:
                w = rng.choice([1.0, 3.0]) * 10.0 ** rng.randint(-20, 3)
            ops.append(["reg", w, val()])
            r = rng.random()
            if r < 0.07:
                ops.append(["bad", rng.choice(["nan_value", "nan_weight", "neg_weight",
                                               "str_value", "none_weight", "huge_value",
                                               "huge_weight"])])
            elif r < 0.10:
                ops.append(["init"])
            elif r < 0.18:
                ops.append(["query"])
    else:
        t = rng.choice([0.0, 0.0, 1.0, 10.0, 100.5])
        closed = False
        fine = rng.random() < 0.2          # distinct timestamps that are relatively very close
        bigint = (not fine) and rng.random() < 0.1    # int timestamps beyond 2**53 (ns clocks)
        if bigint:
            t = rng.choice([2 ** 53 + 1, 1790000000000000123, 2 ** 63 + 7])
        if fine:
            t = rng.choice([1000.0, 1e6, 86400.0 * 365])
        # a whole history on a nanosecond scale (clock in seconds, events ns apart)
        nano = (not fine) and (not bigint) and rng.random() < 0.12
        if nano:
            t = rng.choice([0.0, 0.0, 1e-6, 0.001])
        for _ in range(n):
            dt = rng.choice([0, 0, 0.5, 1, 1, 2, 0.25, 3.0])
            if fine:
                dt = rng.choice([0, 1e-7, 1e-6, 1e-4, 2 ** -20, 1e-9 * t, 1.0])
            if bigint:
                dt = rng.choice([0, 1, 1, 3, 100, 255, 1000])
            if nano:
                dt = rng.choice([0, 1e-9, 1e-9, 5e-10, 1e-10, 2 ** -32, 1e-12, 3e-9, 1e-8])
            t = t + dt
            ops.append(["reg", t, val()])
            r = rng.random()
            if r < 0.07:
                ops.append(["bad", rng.choice(["regress", "regress_ulp", "regress_rel", "nan_time",
                                               "nan_value", "str_value", "none_time",
                                               "huge_value", "huge_time"])])
            elif r < 0.10:
                ops.append(["init"])
                closed = False
            elif r < 0.16:
                ops.append(["query"])
            elif r < 0.19 and not closed:
                # a closing call that must be refused (and leave the tally open)
                ops.append(["badend", rng.choice(["regress", "regress_ulp", "nan", "str", "none"])])
            elif r < 0.25 and not closed:
                t = t + (rng.choice([0, 0.5, 1, 4]) if not (fine or bigint or nano)
                         else rng.choice([0, 1e-9, 4e-10]) if nano else (rng.choice([0, 1e-6, 1e-7, 1.0]) if fine else rng.choice([0, 1, 7])))
                ops.append(["end", t])
                closed = True
        if not closed and rng.random() < 0.6:
            t = t + (rng.choice([0, 0.5, 2]) if not (fine or bigint or nano)
                     else rng.choice([0, 1e-9, 2e-10]) if nano else (rng.choice([0, 1e-6, 1e-7, 2.0]) if fine else rng.choice([0, 2, 9])))
            ops.append(["end", t])
    case = {"kind": kind, "variant": variant, "ops": ops, "quantities": rng.random() < 0.1}
    if wild:
        case["wild"] = True
    if rng.random() < 0.15:
        case["bound"] = True       # observations arrive through a bound method taken at the start
    if kind == "timestamp" and bigint:
        # exact int timestamps only make sense where nothing converts them: the plain
        # tally fed plain ints
        case["variant"] = "plain"
        case["quantities"] = False
        case["bigint"] = True
    return case


class Sub(EventListener):
    def __init__(self, stat):
        self.stat = stat
        self.table = {id(getattr(StatEvents, k)): (k, g) for k, g in EVENT_GETTER.items()}
        self.bad = []
        self.count = 0
        self.last = {}

    def settle(self):
        """After the registering call returned: what was published for it must
        describe the state that includes the observation."""
        for k, (c, g) in self.last.items():
            now = getattr(self.stat, g[0])(*g[1:])
            same = c == now or (isinstance(c, float) and isinstance(now, float)
                                and math.isnan(c) and math.isnan(now))
            if not same:
                self.bad.append("the last %s published is %r but %s() returns %r once the "
                                "observation is registered" % (k, c, gname(g), now))
                break
        self.last = {}

    def notify(self, event):
        self.count += 1
        ent = self.table.get(id(event.event_type))
        if ent is None:
            return
        k, g = ent
        now = getattr(self.stat, g[0])(*g[1:])
        c = event.content
        self.last[k] = (c, g)
        same = c == now or (isinstance(c, float) and isinstance(now, float)
                            and math.isnan(c) and math.isnan(now))
        if not same:
            self.bad.append("published %s = %r but %s() returns %r" % (k, c, gname(g), now))


def read(stat):
    out = {}
    for g in W_GETTERS:
        try:
            out[gname(g)] = getattr(stat, g[0])(*g[1:])
        except Exception as e:
            out[gname(g)] = "raised:%s: %s" % (type(e).__name__, e)
    return out


def text(d):
    return {k: (common.fhex(v) if isinstance(v, float) else repr(v)) for k, v in d.items()}


NANF = float("nan")


def run(case):
    info = {"accepted": 0, "rejected": 0, "special": 0, "closed": 0, "published": 0}
    kind, variant = case["kind"], case["variant"]
    if kind == "weighted":
        st = WeightedTally("w") if variant == "plain" else EventBasedWeightedTally("w")
    else:
        st = TimestampWeightedTally("p") if variant == "plain" \
            else EventBasedTimestampWeightedTally("p")
    sub = None
    if variant == "event+sub":
        sub = Sub(st)
        for k in list(EVENT_GETTER) + ["OBSERVATION_ADDED_EVENT"]:
            st.add_listener(getattr(StatEvents, k), sub)
    obs = []          # weighted: (w, v); timestamp: (t, v)
    closed_at = None
    # a caller (or an event scheduled in advance) may hold the bound method from the
    # start: reg = tally.register ... reg(t, v) much later
    held = st.register if case.get("bound") else None

    def check(step):
        if kind == "weighted":
            ex = refstats.weighted_exact(obs)
            names = [gname(g) for g in W_GETTERS]
        else:
            ex = refstats.signal_exact(obs, closed_at)
            names = T_JUDGED
        got = read(st)
        for name in [gname(g) for g in W_GETTERS]:
            if isinstance(got[name], str):
                return ("getter", "after op #%d: %s() %s (observations %s)"
                        % (step, name, got[name], obs[:6]))
        if case.get("wild"):
            return None
        for name in names:
            exact, tol = ex[name]
            msg = refstats.compare(name, got[name], exact, tol)
            if msg:
                return ("getter", "after op #%d (%s, %d accepted observations %s%s): %s"
                        % (step, kind, len(obs), obs[:6], "..." if len(obs) > 6 else "",
                           msg))
        return None

    last_t = None
    for i, op in enumerate(case["ops"]):
        name = op[0]
        if name == "reg":
            before = text(read(st)) if closed_at is not None else None
            a1, a2 = op[1], op[2]
            if case.get("quantities") and i % 3 == 0:
                # weights / timestamps / values given as quantities (float subclass)
                a1 = Duration(float(a1), "s")
                if i % 2 == 0:
                    a2 = Duration(float(a2), "s")
            try:
                (held if held is not None else st.register)(a1, a2)
            except Exception as e:
                return ("register-raised", "op #%d register(%r, %r) raised %s: %s "
                        "(previous observations %s)" % (i, op[1], op[2], type(e).__name__,
                                                        e, obs[-3:])), info
            if sub is not None:
                sub.settle()
            if closed_at is None:
                if kind == "weighted" and op[1] == 0:
                    info["special"] += 1
                if kind == "timestamp" and last_t is not None and op[1] == last_t:
                    info["special"] += 1
                if kind == "timestamp" and obs and obs[-1][0] == op[1]:
                    obs[-1] = (op[1], op[2])      # same instant: the later value holds
                else:
                    obs.append((op[1], op[2]))
                last_t = op[1]
                info["accepted"] += 1
            else:
                after = text(read(st))
                for k in T_JUDGED:
                    if before[k] != after[k]:
                        return ("changed-after-close", "op #%d register(%r, %r) after "
                                "end_observations changed %s from %s to %s"
                                % (i, op[1], op[2], k, before[k], after[k])), info
        elif name == "bad":
            b = op[1]
            t_ok = (last_t if last_t is not None else 0.0)
            args = {"nan_value": (1.0 if kind == "weighted" else t_ok, NANF),
                    "nan_weight": (NANF, 1.0), "neg_weight": (-1.0, 1.0),
                    "str_value": (1.0 if kind == "weighted" else t_ok, "x"),
                    "none_weight": (None, 1.0), "none_time": (None, 1.0),
                    "nan_time": (NANF, 1.0),
                    # plain ints beyond the float range
                    "huge_value": (1.0 if kind == "weighted" else t_ok, 10 ** 400),
                    "huge_weight": (10 ** 400, 1.0), "huge_time": (10 ** 400, 1.0),
                    "regress": ((last_t - 0.5) if last_t is not None else None, 1.0),
                    # earlier by one ulp / by a relative 1e-13: still earlier
                    "regress_ulp": ((math.nextafter(last_t, -math.inf)
                                     if isinstance(last_t, float) else last_t - 1)
                                    if last_t is not None else None, 1.0),
                    "regress_rel": ((last_t - abs(last_t) * 1e-13
                                     if isinstance(last_t, float) else last_t - 1)
                                    if last_t is not None else None, 1.0)}[b]
            if b.startswith("regress") and (last_t is None or not args[0] < last_t):
                continue
            before = text(read(st))
            try:
                st.register(*args)
                return ("invalid-accepted", "op #%d register%.60r was accepted" % (i, args)), info
            except (TypeError, ValueError, OverflowError):
                pass
            info["rejected"] += 1
            after = text(read(st))
            if before != after:
                diff = {k: (before[k], after[k]) for k in before if before[k] != after[k]}
                return ("rejected-input-changed-state", "op #%d rejected register%.60r "
                        "changed %s" % (i, args, diff)), info
        elif name == "init":
            st.initialize()
            obs = []
            closed_at = None
            last_t = None
        elif name == "end":
            if closed_at is not None:
                continue
            try:
                st.end_observations(op[1])
            except Exception as e:
                return ("register-raised", "op #%d end_observations(%r) raised %s: %s"
                        % (i, op[1], type(e).__name__, e)), info
            closed_at = op[1]
            info["closed"] += 1
            if st.isactive():
                return ("not-closed", "isactive() is still True after end_observations"), info
            f = check(i)
            if f:
                return f, info
        elif name == "badend":
            if closed_at is not None or last_t is None:
                continue
            arg = {"regress": last_t - 0.5 if isinstance(last_t, float) else last_t - 1,
                   "regress_ulp": math.nextafter(last_t, -math.inf)
                   if isinstance(last_t, float) else last_t - 1,
                   "nan": NANF, "str": "x", "none": None}[op[1]]
            before = text(read(st))
            try:
                st.end_observations(arg)
                return ("invalid-accepted", "op #%d end_observations(%r) was accepted "
                        "(last timestamp %r)" % (i, arg, last_t)), info
            except (TypeError, ValueError):
                pass
            info["rejected"] += 1
            after = text(read(st))
            if before != after:
                diff = {k: (before[k], after[k]) for k in before if before[k] != after[k]}
                return ("rejected-input-changed-state", "op #%d rejected end_observations(%r) "
                        "changed %s" % (i, arg, diff)), info
            if not st.isactive():
                return ("rejected-input-changed-state", "op #%d rejected end_observations(%r) "
                        "closed the tally (isactive() is False): later observations are "
                        "ignored" % (i, arg)), info
        elif name == "query":
            f = check(i)
            if f:
                return f, info
        if sub is not None and sub.bad:
            return ("published-value", "op #%d %s: %s" % (i, op, sub.bad[0])), info
    f = check(len(case["ops"]))
    if sub is not None:
        info["published"] = sub.count
    return f, info


def execute(case):
    if case["kind"] == "giant":
        f, info = run_giant(case)
    else:
        f, info = run_threaded(case) if case.get("threaded") else run(case)
    res = {"clean": f is None or f[0] != "harness", "digest": common.digest([case, f and f[0], info.get("schedule")]),
           "counters": {"kind:" + case["kind"]: 1, "variant:" + case["variant"]: 1,
                        "fault:rejected_input": info["rejected"],
                        "accepted_observations": info["accepted"],
                        "zero_weight_or_repeated_timestamp": info["special"],
                        "closed": info["closed"],
                        "published_values_checked": info["published"],
                        "layer:two_threads": 1 if case.get("threaded") else 0,
                        "fault:preempt": info.get("switches", 0)},
           "nontrivial": info["accepted"] >= 3 and (info["special"] + info["closed"]) >= 1,
           "case_digest": common.digest8(case)}
    if f:
        res["status"] = "harness" if f[0] == "harness" else "violation"
        res["check_id"], res["message"] = f
    else:
        res["status"] = "ok"
    return res


def case_size(case):
    return {"ops": len(case["ops"])}


def shrink(case, fails):
    ops = shr.ddmin(case["ops"], lambda o: fails(dict(case, ops=o)))
    case = dict(case, ops=ops)
    if case["variant"] == "event+sub" and fails(dict(case, variant="plain")):
        case["variant"] = "plain"
    return case
