"""C03 — run horizon: bounded runs execute exactly the events up to the
bound and compose (any segmentation == one uninterrupted run)."""
from vf import common, program, simrun, devscommon, shrink as shr
from vf.models.refdevs import OK

PROPERTY = "C03"
LEVEL = "exploration"
BUDGET = {"quick": 24000, "thorough": 3000000}
WALL_CAP = {"quick": 150, "thorough": 3000}
CHUNK = 250
RULE = ("one case = a generated model program plus a segmentation of its "
        "replication into run_up_to(t) / run_up_to_including(t) / step() / "
        "pause (the k-th executed handler calls stop()) pieces, each settled, "
        "followed by start() until the end; cut points are drawn relative to "
        "the pending event times of the reference (before, exactly at, "
        "between, equal to the clock; a minority before the clock or beyond "
        "the end); executed on the real simulator under the baton scheduler "
        "(3/4 run-to-block, 1/4 seeded pre-emption); a quarter of the cases "
        "instead cut the replication by stop() from the caller thread at "
        "seeded points of the run thread (start / bounded run, sleep, stop, "
        "...; then resumed to the end) and are judged by composition only. "
        "non-trivial = at least "
        "two pieces were admitted before the final start AND at least 3 "
        "handlers executed; distinct = digest of (program, commands, pauses)")
COMPONENTS = {
    "real": ["pydsol.core.simulator (run loop, start/step/stop/run_up_to*, run thread)",
             "pydsol.core.eventlist", "pydsol.core.simevent", "pydsol.core.pubsub"],
    "stub": ["threading.Event/Lock (cooperative)", "time.time/sleep (virtual clock)",
             "stdout/stderr/logging (sunk)"]}
ASSUMPTIONS = [
    "exclusive bounds are only cut strictly before the replication end (at the end the statement's 'excluding' and 'not resumable' jointly drop the events at the end)",
    "a bound before the clock or beyond the end may be refused (nothing changes) or clamped",
    "a step() when nothing can execute (no event within the horizon) may idle, be refused or end the replication",
]
MY_CHECKS = {"state-after-command", "clock-after-command", "trace-mismatch",
             "command-outcome", "composition-mismatch", "executed-beyond-end",
             "no-quiescence", "harness", "clock-backwards", "final-clock",
             "command-raised-non-dsol-error"}


def init_worker():
    simrun.install()


def gen_overlap(rng, seed, prog):
    """Segmentation by the caller thread: bounded runs / starts that are
    stopped by stop() from the caller at seeded points of the run thread."""
    case = {"program": prog, "strategy": 3, "mode": "overlap"}
    ref = devscommon.make_ref(case)
    ref.initialize()
    ref.run(ref.end, True)
    times = sorted(set(t for t, _ in ref.trace if ref.start <= t <= ref.end))
    cmds = [["initialize"]]
    for _ in range(rng.randint(1, 4)):
        r = rng.random()
        if r < 0.5 or not times:
            cmds.append(["start"])
        else:
            t = rng.choice(times) + rng.choice([0, 0, 0.25])
            t = min(t, ref.end)
            if prog["clock"] == "int":
                t = int(t)
            cmds.append(["run_up_to_incl", t])
        cmds.append(["sleep", rng.choice([0.0001, 0.0003, 0.0005, 0.001, 0.002])])
        cmds.append(["stop"])
        cmds.append(rng.choice([["settle"], ["settle"], ["poll_stopped"]]))
    cmds += [["settle"], ["drain", 12], ["settle"]]
    case["commands"] = cmds
    case["sched"] = {"kind": rng.choice(["pct", "site", "site"]), "seed": seed,
                     "p": rng.choice([0.02, 0.005]), "q": rng.choice([0.3, 0.15]),
                     "d": rng.choice([1, 2, 3]), "step_cost_us": rng.choice([1, 10, 100])}
    if rng.random() < 0.3:
        # fault 'eager poller' (see simrun.Runner._eager)
        case["sched"]["eager"] = [rng.choice([0.5, 0.01]),
                       rng.choice([0, 1, 2, 3, 4, 6, 8, 10, 12, 15, 20, 25, 30, 40, 60])]
    if rng.random() < 0.15:
        case["sched"]["opcodes"] = True      # pre-emption between bytecodes of simulator.py
    if rng.random() < 0.4:
        case["sched"]["refill"] = True       # pre-emption budget per command instead of per run
    return case


def generate(seed, tier, idx=0):
    rng = common.rng_for(seed, "case")
    prog = program.gen_program(rng, p_cancel=rng.choice([0.0, 0.1]),
                               n_events=rng.choice([3, 4, 5, 6, 8, 10, 14, 20]))
    if prog["clock"] == "int":
        prog["rep"] = [int(x) for x in prog["rep"]]
    if rng.random() < 0.25:
        return gen_overlap(rng, seed, prog)
    case = {"program": prog, "strategy": 3}
    # pauses: the k-th executed handler calls stop()
    n_ev = len(prog["events"])
    if rng.random() < 0.4:
        case["pause_at"] = sorted(set(rng.randint(1, n_ev)
                                      for _ in range(rng.choice([1, 1, 2, 3]))))
    ref = devscommon.make_ref(case)
    cmds = []
    if rng.random() < 0.15:
        # an earlier, longer replication on the same simulator that was stepped
        # and abandoned: nothing of it (e.g. a remembered end time) may leak
        s0, w0, l0 = prog["rep"]
        longer = [s0, w0, l0 + rng.choice([3, 10, 30])]
        first = ["initialize", longer]
        devscommon.ref_apply(ref, first)
        cmds += [first, ["settle"]]
        for _ in range(rng.randint(1, 3)):
            if ref.can_start():
                devscommon.ref_apply(ref, ["step"])
                cmds += [["step"], ["settle"]]
        case["prelude"] = True
    cmds += [["initialize"], ["settle"]]
    ref.initialize(list(prog["rep"]))
    for _ in range(rng.randint(1, 6)):
        if ref.run_state == "ENDED":
            break
        r = rng.random()
        if r < 0.3:
            cmd = ["step"]
        elif r < 0.4:
            cmd = ["start"]        # runs to the end or to the next pause
        else:
            name = "run_up_to" if rng.random() < 0.5 else "run_up_to_incl"
            times = sorted(set(t for t in ref.pending_times()
                               if ref.clock <= t <= ref.end))
            cands = [ref.clock, ref.clock]
            for t in times[:5]:
                cands += [t, t, t + 0.25, t - 0.25]
                if prog["clock"] == "float" or prog.get("unit") == "s":
                    # bounds one ulp before / after an event time
                    import math as _m
                    cands += [_m.nextafter(float(t), _m.inf), _m.nextafter(float(t), -_m.inf)]
            cands.append(ref.end)
            cands = [t for t in cands if ref.clock <= t <= ref.end]
            t = rng.choice(cands)
            if rng.random() < 0.10:
                t = rng.choice([ref.clock - 1, ref.clock - 0.5, ref.end + 2, ref.end + 0.5,
                                ref.end + 1, ref.end + 5])
            if prog["clock"] == "int" and not (float(t) != int(t) and rng.random() < 0.5
                                               and abs(t) < 2 ** 40):
                # (half of the fractional candidates are kept: a float bound between
                # two instants of an int clock)
                t = int(t)
            if name == "run_up_to" and t == ref.end:
                # (exactly at the end "excluding" and "not resumable" jointly
                # drop the events at the end: documented relaxation; a bound
                # beyond the end must still run everything up to the end)
                name = "run_up_to_incl"
            cmd = [name, t]
        exp = devscommon.ref_apply(ref, cmd)
        if exp is None:
            # mirror the clamping reading so generation can continue
            if cmd[0] == "step":
                ref.step()
            else:
                t = max(cmd[1], ref.clock)
                incl = cmd[0] == "run_up_to_incl"
                if t > ref.end:
                    t, incl = ref.end, True
                ref.run(t, incl)
        cmds += [cmd, ["settle"]]
    guard = 0
    while ref.run_state != "ENDED" and guard < 12:
        if ref.run(ref.end, True) != OK:
            break
        cmds += [["start"], ["settle"]]
        guard += 1
    case["commands"] = cmds
    if rng.random() < 0.75:
        case["sched"] = {"kind": "S0"}
    else:
        case["sched"] = {"kind": rng.choice(["pct", "site"]), "seed": seed,
                         "p": 0.01, "q": 0.15, "d": rng.choice([1, 2, 3]),
                         "step_cost_us": rng.choice([0, 1, 10, 100])}
    return case


def uninterrupted_trace(case, r):
    ref = devscommon.make_ref(case)
    ref.pause_at = set()
    ref.ignore_stops = True
    ref.strategy = 1
    ref.initialize()
    ref.run(ref.end, True)
    return devscommon.ref_trace(ref, r), ref


def evaluate_overlap(case, r):
    """Composition under caller-thread stops: whatever the interleaving, the
    concatenated pieces equal the uninterrupted run and the replication stays
    resumable until it has ended."""
    H = r.hist.H
    findings = []
    if r.aborted:
        return [("no-quiescence", "run aborted: %s" % r.aborted)], {}
    full, ref = uninterrupted_trace(case, r)
    end = r.ref_time(ref.end)
    late = [h for h in H if h[0] == "exe" and h[2] > end]
    if late:
        findings.append(("executed-beyond-end", "handler of event %s ran at %s, after the "
                         "replication end %s" % (late[0][1], late[0][2], end)))
    for h in H:
        if h[0] == "quiet" and h[2] not in ("INITIALIZED", "STOPPED", "ENDED"):
            findings.append(("state-after-command", "after a caller-thread stop the simulator "
                             "settles in run_state %s (replication_state %s, clock %s): not "
                             "resumable and not ended" % (h[2], h[3], h[4])))
            break
    got = devscommon.executed(H)
    d = devscommon.describe_trace_diff(got, full)
    if d is not None and not findings:
        findings.append(("composition-mismatch", "pieces separated by caller-thread stop() "
                         "differ from the uninterrupted run: " + d[1]))
    if not findings and (r.final[0] != "ENDED" or r.final[2] != end):
        findings.append(("final-clock", "after resuming until the end the simulator reports "
                         "%s, the uninterrupted run ends ENDED at %s" % (r.final[:3], end)))
    cmds = devscommon.split_history(H)
    stops = [c for c in cmds if c["name"] == "stop" and c.get("outcome") == "ok"]
    return findings, {"accepted_stops": len(stops), "ref": ref}


def execute(case):
    if case.get("mode") == "overlap":
        r = simrun.Runner(case).run()
        findings, info = evaluate_overlap(case, r)
        findings = [f for f in findings if f[0] in MY_CHECKS]
        res = {"digest": r.digest(), "clean": r.clean, "counters": {"mode:overlap": 1,
               "piece:caller_stop_accepted": info.get("accepted_stops", 0)},
               "final_case": devscommon.replay_form(case, r), "sums": {}, "sets": {},
               "nontrivial": info.get("accepted_stops", 0) >= 1
               and sum(1 for h in r.hist.H if h[0] == "exe") >= 3,
               "case_digest": common.digest8([case["program"], case["commands"]]),
               "sample_class": "overlap",
               "observed": {"final": r.final if not r.aborted else None}}
        devscommon.detsim_stats(res, case, r)
        if findings:
            res["status"] = "violation"
            res["check_id"], res["message"] = findings[0]
        else:
            res["status"] = "ok"
        return res
    r = simrun.Runner(case).run()
    findings, info = devscommon.evaluate_sequential(case, r)
    H = r.hist.H
    ref = info.get("ref")
    if info.get("invalid"):
        findings = []
    elif ref is not None and not findings:
        full, ref_u = uninterrupted_trace(case, r)
        end = r.ref_time(ref.end)
        last_init = max([i for i, h in enumerate(H) if h[0] == "cmd"
                         and h[2] == "initialize" and h[3] == "return"] or [0])
        late = [h for h in H[last_init:] if h[0] == "exe" and h[2] > end]
        if late and not findings:
            findings.append(("executed-beyond-end",
                             "handler of event %s ran at %s, after the replication "
                             "end %s" % (late[0][1], late[0][2], end)))
        got = devscommon.executed(H[last_init:])
        # a TIME_CHANGED subscriber that schedules events makes the *model*
        # depend on which times are announced; an exclusive bounded run moves the
        # clock to its bound without announcing it, so the pieces are then only
        # judged in lock-step with the reference (above), not against the
        # uninterrupted run
        announce_sensitive = bool(case["program"].get("tc_listener")) and \
            any(c[0] == "run_up_to" for c in case["commands"])
        if r.final[0] == "ENDED" and not info.get("beyond_end"):
            d = None if announce_sensitive else devscommon.describe_trace_diff(got, full)
            if d is not None:
                findings.append(("composition-mismatch",
                                 "the segmented replication differs from the "
                                 "uninterrupted run: " + d[1]))
            if r.final[2] != end:
                findings.append(("final-clock", "final clock %s after the segmented "
                                 "replication, uninterrupted run ends at %s"
                                 % (r.final[2], end)))
    findings = [f for f in findings if f[0] in MY_CHECKS]
    cnt = {}
    res = {"digest": r.digest(), "clean": r.clean, "counters": cnt,
           "final_case": devscommon.replay_form(case, r),
           "sums": {}, "sets": {}}
    cnt["clock:" + case["program"]["clock"]] = 1
    pieces = [c for c in case["commands"] if c[0] in ("step", "run_up_to", "run_up_to_incl")]
    for c in pieces:
        cnt["piece:" + c[0]] = cnt.get("piece:" + c[0], 0) + 1
    cnt["piece:pause_from_handler"] = r.probes.get("pause_from_handler", 0)
    cnt["probe:unjudged_bounds_or_boundary_steps"] = info.get("unjudged", 0)
    n_exe = sum(1 for h in H if h[0] == "exe")
    res["nontrivial"] = info.get("accepted", 0) >= 4 and n_exe >= 3
    res["case_digest"] = common.digest8([case["program"], case["commands"],
                                         case.get("pause_at")])
    if ref is not None:
        res["sums"]["sim_model_time"] = float(ref.end - ref.start)
    res["observed"] = {"clocks_at_quiescence": [h[4] for h in H if h[0] == "quiet"][:12]}
    devscommon.detsim_stats(res, case, r)
    if findings:
        res["status"] = "violation"
        res["check_id"], res["message"] = findings[0]
        if findings[0][0] == "harness":
            res["status"] = "harness"
    else:
        res["status"] = "ok"
    return res


def case_size(case):
    p = case["program"]
    return {"events": len(p["events"]), "commands": len(case["commands"])}


def shrink(case, fails):
    return shr.shrink_devs_case(case, fails)
