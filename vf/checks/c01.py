"""C01 — the event list is a faithful priority queue (time, priority,
creation order), whatever the history of add / remove / pop / peek / clear."""
import math

from vf import common, shrink as shr

common.use_repo()
from pydsol.core.eventlist import EventListHeap      # noqa: E402
from pydsol.core.simevent import SimEvent            # noqa: E402
from pydsol.core.units import Duration               # noqa: E402

PROPERTY = "C01"
LEVEL = "exploration"
BUDGET = {"quick": 150000, "thorough": 15000000}
WALL_CAP = {"quick": 150, "thorough": 3000}
CHUNK = 2000
RULE = ("one case = a generated history of 1-60 operations over EventListHeap "
        "(add new, re-add a removed/popped event, remove a pending event chosen "
        "by rank (smallest, largest, median, random, most recent), remove an "
        "absent event, pop_first, peek_first, contains, size, is_empty, clear) "
        "with tie-heavy times (grid incl. inf) of one time type per history "
        "(int, float, mixed int/float, Duration in mixed units) and priorities "
        "from {1,3,5,5,5,7,10}; checked op by op against a sorted-list reference "
        "and, after every mutating op, by draining a fresh list that replayed "
        "the history prefix. non-trivial = a pending event that is not the "
        "minimum was removed and a pop happened afterwards; distinct = digest "
        "of the history")
COMPONENTS = {"real": ["pydsol.core.eventlist.EventListHeap", "pydsol.core.simevent.SimEvent",
                       "pydsol.core.units.Duration"],
              "stub": []}
ASSUMPTIONS = ["sizes are swarm-varied: about 1 % of the histories are large (150-4000 operations, up to ~2500 events pending; the drain comparison then runs every 37th operation)",
               "NaN times are outside the quantifier",
               "no scheduler/clock/second party in this property: the baton scheduler is idle; the same list is also driven through cancel_event in every C02 run"]

GRID = [0, 0, 1, 1, 2, 3, 0.5, 1.5, 2, 5, 8, 13, 19, 20, 18, 7, float("inf")]
PRIOS = [1, 3, 5, 5, 5, 7, 10]


class _Target:
    def m(self):
        pass


class SubEvent(SimEvent):
    """Users may subclass SimEvent; such events live on the same list."""


class SubEvent2(SubEvent):
    pass


EVENT_CLASSES = [SimEvent, SubEvent, SubEvent2]


TARGET = _Target()


def run_giant(case):
    """Tens of thousands of pending events (beyond any plausible size threshold):
    adds, a few hundred interior removals, then a complete drain.  Judged without a
    reference list: the drain must be sorted by (time, priority, creation) and be
    exactly the events that were not removed."""
    import random as _random
    rng = _random.Random(case["seed"])
    SimEvent._SimEvent__event_counter = 0
    el = EventListHeap()
    tgt = _Target()
    evs = []
    for _ in range(case["n"]):
        t = rng.randrange(0, case["n"] // 4) / 2.0 if case["ttype"] == "float" \
            else rng.randrange(0, case["n"] // 4)
        ev = SimEvent(t, tgt, "m", rng.choice(PRIOS))
        el.add(ev)
        evs.append(ev)
    removed = set()
    for k in range(case["removes"]):
        ev = evs[rng.randrange(len(evs))]
        if id(ev) in removed:
            continue
        if not el.remove(ev):
            return ("remove", "giant list: remove() of a pending event returned False"), {}
        removed.add(id(ev))
        if k % 7 == 0:
            ev2 = SimEvent(rng.randrange(0, case["n"] // 4) / 2.0, tgt, "m", rng.choice(PRIOS))
            el.add(ev2)
            evs.append(ev2)
    expected = sorted((e for e in evs if id(e) not in removed), key=key_of)
    if el.size() != len(expected):
        return ("size", "giant list: size() == %d, expected %d" % (el.size(), len(expected))), {}
    for j, exp in enumerate(expected):
        got = el.pop_first()
        if got is not exp:
            return ("drain-order", "a list of %d events after %d interior removals: pop #%d "
                    "returned %s while %s was still pending"
                    % (len(evs), len(removed), j, _desc(got), _desc(exp))), {}
    return None, {}


def run_generations(case):
    """Several 'replications' on one list: a few hundred events are added, the list
    is cleared while they are pending and NOBODY keeps them (so their memory, and
    id(), is reused), new events are added and completely drained.  Judged by
    sortedness and identity of the drained events."""
    import gc
    import random as _random
    rng = _random.Random(case["seed"])
    SimEvent._SimEvent__event_counter = 0
    el = EventListHeap()
    tgt = _Target()
    for g in range(case["generations"]):
        old = [SimEvent(rng.randrange(0, 60) / 2.0, tgt, "m", rng.choice(PRIOS))
               for _ in range(case["n"])]
        for ev in old:
            el.add(ev)
        el.clear()
        del old, ev
        gc.collect()
        new = [SimEvent(rng.randrange(0, 60) / 2.0, tgt, "m", rng.choice(PRIOS))
               for _ in range(case["n"])]
        for ev in new:
            el.add(ev)
        if g % 2 == 0 and new:
            victim = new[rng.randrange(len(new))]
            if not el.remove(victim):
                return ("remove", "generation %d: remove() of a pending event returned False" % g), {}
            new = [e for e in new if e is not victim]
        expected = sorted(new, key=key_of)
        for j, exp in enumerate(expected):
            got = el.pop_first()
            if got is not exp:
                return ("drain-order", "generation %d (after clear() of %d pending events that "
                        "nobody kept): pop #%d returned %s while %s was still pending"
                        % (g, case["n"], j, _desc(got), _desc(exp))), {}
        if not el.is_empty():
            return ("size", "generation %d: list not empty after the drain" % g), {}
        del new, expected
    return None, {}


def generate(seed, tier, idx=0):
    rng = common.rng_for(seed, "case")
    if rng.random() < 2e-3:
        return {"kind": "generations", "n": rng.choice([50, 200, 400]), "generations": 3,
                "ttype": "float", "seed": rng.getrandbits(32), "ops": []}
    if rng.random() < (1e-4 if tier == "quick" else 1e-3):
        return {"kind": "giant", "n": rng.choice([40000, 70000]), "removes": 400,
                "ttype": rng.choice(["float", "int"]), "seed": rng.getrandbits(32), "ops": []}
    ttype = rng.choice(["int", "float", "mixed", "duration", "float"])
    # int times far beyond 2**53 are exact ints but not representable as floats
    big = rng.choice([0, 0, 0, 2 ** 53, 10 ** 18 + 7]) if ttype == "int" else 0
    classes = rng.choice([[0], [0], [0, 1], [0, 1, 2], [1, 2]])    # SimEvent / subclasses
    n = rng.choice([3, 4, 5, 6, 8, 10, 15, 20, 30, 45, 60])
    if rng.random() < (0.01 if tier == "quick" else 0.03):
        n = rng.choice([150, 400, 1000, 2600, 4000])      # occasional large lists
    shape = rng.random()
    huge = n > 1000           # first well over a thousand events pending, then removals
    w = {"add": 5, "readd": 1, "remove": 2, "remove_absent": 0.5, "pop": 2,
         "peek": 1, "contains": 1, "size": 0.5, "is_empty": 0.5, "clear": 0.15,
         # looking at the list (printing, logging, a debugger) must not change it
         "show": 0.5 if n <= 100 else 0.03}      # (printing a long list is slow)
    if rng.random() < 0.05:
        # millions of other events are created elsewhere in the process between two
        # adds of this list (ids far apart)
        w["idgap"] = 0.6
    if rng.random() < 0.03:
        # elsewhere in the process a simulator is initialised (and cleaned up) while
        # events of this list are alive: ids must keep following creation order
        w["sim_init"] = 0.4
    if shape < 0.3:
        w.update(remove=4, pop=3)       # "remove interior, then add, then pop"
    elif shape < 0.4:
        w.update(add=8, pop=1, remove=1)
    names = list(w)
    weights = [w[k] for k in names]
    ops = []
    for k in range(n):
        op = rng.choices(names, weights)[0]
        if huge and k < 1300:
            op = "add"
        if op == "add":
            t = rng.choice(GRID)
            if huge and t != float("inf") and rng.random() < 0.8:
                t = rng.randrange(0, 3000) / 2.0      # many distinct times
            if ttype == "int":
                t = int(t) if t != float("inf") else 10 ** 9
                t += big
            elif ttype == "float":
                t = float(t)
            elif ttype == "mixed":
                if t != float("inf") and t == int(t) and rng.random() < 0.5:
                    t = int(t)
                else:
                    t = float(t)
            else:
                t = [float(t), rng.choice(["s", "s", "min", "h"])] \
                    if t != float("inf") else [float("inf"), "s"]
            ops.append(["add", t, rng.choice(PRIOS), rng.choice(classes)])
        elif op == "remove":
            ops.append(["remove", rng.choice(["min", "max", "median", "random", "last"]),
                        rng.random()])
        elif op in ("readd", "contains"):
            ops.append([op, rng.random(), rng.random()])
        else:
            ops.append([op])
    case = {"ttype": ttype, "ops": ops}
    if rng.random() < 0.05:
        case["id_offset"] = rng.choice([2 ** 31, 2 ** 32, 2 ** 63, 2 ** 64]) - rng.randint(1, 12)
    return case


def _other_simulator_initialized():
    from pydsol.core.simulator import DEVSSimulatorFloat
    from pydsol.core.model import DSOLModel
    from pydsol.core.experiment import Replication

    class _M(DSOLModel):
        def construct_model(self):
            self.simulator.schedule_event_rel(1.0, self, "h")

        def h(self):
            pass
    sim = DEVSSimulatorFloat("other")
    sim.initialize(_M(sim), Replication("r", 0, 0.0, 0.0, 10.0))
    sim.cleanup()


def make_time(t):
    if isinstance(t, list):
        return Duration(t[0], t[1])
    return t


def key_of(ev):
    t = ev.time
    # (the reference keeps its own creation sequence where the history records one:
    # "earlier creation" is a fact about the history, not about the library's counter)
    return (t if type(t) is int else float(t), -ev.priority, getattr(ev, "_vf_seq", ev._id))


def run_history(case):
    """Execute the history on a real list and on the reference; returns
    (finding or None, info)."""
    SimEvent._SimEvent__event_counter = case.get("id_offset", 0)
    for cls in (SubEvent, SubEvent2):
        # should a subclass have grown a counter of its own, start it afresh
        # too, so that a run does not depend on earlier runs in this process
        if "_SimEvent__event_counter" in cls.__dict__:
            delattr(cls, "_SimEvent__event_counter")
    el = EventListHeap()
    ref = []            # sorted list of events
    all_events = []     # every event ever created
    gone = []           # removed / popped events (candidates for re-add)
    applied = []        # concrete mutating ops, for the drain check
    info = {"interior_removed": False, "pop_after": False, "ops": 0}

    def pick_pending(how, x):
        if not ref:
            return None
        if how == "min":
            return ref[0]
        if how == "max":
            return ref[-1]
        if how == "median":
            return ref[len(ref) // 2]
        if how == "last":
            return max(ref, key=lambda e: e._id)
        return ref[int(x * len(ref)) % len(ref)]

    def drain_check(step):
        fresh = EventListHeap()
        for a in applied:
            if a[0] == "add":
                fresh.add(a[1])
            elif a[0] == "remove":
                fresh.remove(a[1])
            elif a[0] == "pop":
                fresh.pop_first()
            elif a[0] == "clear":
                fresh.clear()
        got = []
        guard = len(ref) + 5
        while guard > 0:
            e = fresh.pop_first()
            if e is None:
                break
            got.append(e)
            guard -= 1
        if [id(e) for e in got] != [id(e) for e in ref]:
            return ("drain-order", "after op #%d the list drains as %s, expected %s"
                    % (step, [(e.time, e.priority, e._id) for e in got],
                       [(e.time, e.priority, e._id) for e in ref]))
        return None

    for step, op in enumerate(case["ops"]):
        name = op[0]
        info["ops"] += 1
        mutated = False
        if name == "add":
            ev = EVENT_CLASSES[op[3] if len(op) > 3 else 0](make_time(op[1]), TARGET, "m", op[2])
            ev._vf_seq = len(all_events)
            all_events.append(ev)
            el.add(ev)
            ref.append(ev)
            ref.sort(key=key_of)
            applied.append(("add", ev))
            mutated = True
        elif name == "readd":
            pend = in_list(ref)
            cands = [e for e in gone if e not in pend]
            if not cands:
                continue
            ev = cands[int(op[1] * len(cands)) % len(cands)]
            gone.remove(ev)
            el.add(ev)
            ref.append(ev)
            ref.sort(key=key_of)
            applied.append(("add", ev))
            mutated = True
        elif name == "remove":
            ev = pick_pending(op[1], op[2])
            if ev is None:
                continue
            if ev is not ref[0]:
                info["interior_removed"] = True
            r = el.remove(ev)
            if r is not True:
                return ("remove-result", "op #%d remove(pending event %s) returned %r"
                        % (step, key_of(ev), r)), info
            _remove_id(ref, ev)
            gone.append(ev)
            applied.append(("remove", ev))
            mutated = True
        elif name == "remove_absent":
            cands = [e for e in gone] or None
            ev = cands[0] if cands else SimEvent(1.0, TARGET, "m", 5)
            r = el.remove(ev)
            if r is not False:
                return ("remove-result", "op #%d remove(absent event) returned %r"
                        % (step, r)), info
            applied.append(("remove", ev))
            mutated = True
        elif name == "pop":
            got = el.pop_first()
            exp = ref[0] if ref else None
            if got is not exp:
                return ("pop-order", "op #%d pop_first returned %s, expected %s"
                        % (step, _desc(got), _desc(exp))), info
            if ref:
                ref.pop(0)
                gone.append(got)
                if info["interior_removed"]:
                    info["pop_after"] = True
            applied.append(("pop",))
            mutated = True
        elif name == "peek":
            got = el.peek_first()
            exp = ref[0] if ref else None
            if got is not exp:
                return ("peek", "op #%d peek_first returned %s, expected %s"
                        % (step, _desc(got), _desc(exp))), info
        elif name == "contains":
            pool = all_events
            if not pool:
                continue
            ev = pool[int(op[1] * len(pool)) % len(pool)]
            got = el.contains(ev)
            exp = any(e is ev for e in ref)
            if got is not exp:
                return ("membership", "op #%d contains(%s) returned %r, expected %r"
                        % (step, _desc(ev), got, exp)), info
        elif name == "size":
            pass
        elif name == "is_empty":
            pass
        elif name == "idgap":
            SimEvent._SimEvent__event_counter += (3 << 20) + 12345
        elif name == "show":
            str(el)
            repr(el)
            "%s" % (el,)
            mutated = True        # (so that the drain comparison runs afterwards)
        elif name == "sim_init":
            _other_simulator_initialized()
            info["sim_inits"] = info.get("sim_inits", 0) + 1
        elif name == "clear":
            el.clear()
            gone.extend(ref)
            ref.clear()
            applied.append(("clear",))
            mutated = True
        # size / emptiness after every op
        if el.size() != len(ref):
            return ("size", "after op #%d (%s) size() == %r, expected %d"
                    % (step, name, el.size(), len(ref))), info
        if el.is_empty() is not (len(ref) == 0):
            return ("size", "after op #%d is_empty() == %r with %d pending"
                    % (step, el.is_empty(), len(ref))), info
        if mutated and (len(case["ops"]) <= 80 or step % 37 == 0
                        or step == len(case["ops"]) - 1):
            f = drain_check(step)
            if f:
                return f, info
    # comparison operators agree with the key order (strict total order)
    evs = all_events[:12]
    for a in evs:
        for b in evs:
            ka, kb = key_of(a), key_of(b)
            exp = (ka < kb, ka <= kb, ka == kb, ka != kb, ka > kb, ka >= kb)
            got = (a < b, a <= b, a == b, a != b, a > b, a >= b)
            if got != exp:
                return ("comparison", "events %s and %s compare as (lt,le,eq,ne,gt,ge)="
                        "%s, key order gives %s" % (_desc(a), _desc(b), got, exp)), info
    return None, info


class in_list:
    """membership by identity"""
    def __init__(self, lst):
        self.ids = {id(e) for e in lst}

    def __contains__(self, e):
        return id(e) in self.ids


def _remove_id(lst, ev):
    for i, e in enumerate(lst):
        if e is ev:
            del lst[i]
            return


def _desc(e):
    if e is None:
        return "None"
    return "(t=%s, prio=%s, id=%s)" % (e.time, e.priority, e._id)


def execute(case):
    if case.get("kind") == "generations":
        finding, _ = run_generations(case)
        info = {"ops": case["n"] * 2 * case["generations"], "interior_removed": True,
                "pop_after": True}
    elif case.get("kind") == "giant":
        finding, _ = run_giant(case)
        info = {"ops": case["n"] + case["removes"], "interior_removed": True, "pop_after": True}
    else:
        finding, info = run_history(case)
    res = {"clean": True, "digest": common.digest([case, finding and finding[0]]),
           "counters": {"ttype:" + case["ttype"]: 1, "ops": info["ops"],
                        "giant_lists": 1 if case.get("kind") == "giant" else 0},
           "nontrivial": info["interior_removed"] and info["pop_after"],
           "case_digest": common.digest8(case)}
    if finding:
        res["status"] = "violation"
        res["check_id"], res["message"] = finding
    else:
        res["status"] = "ok"
    return res


def case_size(case):
    return {"ops": len(case["ops"])}


def shrink(case, fails):
    ops = shr.ddmin(case["ops"], lambda o: fails(dict(case, ops=o)))
    case = dict(case, ops=ops)
    # simplify: priorities -> 5
    for i, op in enumerate(ops):
        if op[0] == "add" and op[2] != 5:
            o2 = [list(x) for x in ops]
            o2[i][2] = 5
            if fails(dict(case, ops=o2)):
                ops = o2
                case["ops"] = ops
    return case
