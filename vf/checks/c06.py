"""C06 — replications are isolated: re-initialising gives a fresh,
reproducible run whatever happened before."""
import copy

from vf import common, program, simrun, devscommon, statsext, shrink as shr
from vf.models.refdevs import OK

PROPERTY = "C06"
LEVEL = "exploration"
BUDGET = {"quick": 15000, "thorough": 1500000}
WALL_CAP = {"quick": 150, "thorough": 3000}
CHUNK = 100
RULE = ("one case = a prior history on a simulator+model (never started / k steps "
        "/ paused by a handler calling stop / bounded run / ended / paused by an "
        "injected handler fault / refused start / paused and ended by end_replication() / given up by a handler that calls cleanup() "
        "and schedules on / initialize attempted from a "
        "handler while running / ended and re-initialised by a polling caller the moment ENDED is "
        "published, with the eager-poller fault) followed by initialize(model, replication) again "
        "(same model object, same or different replication settings) and a run to "
        "the end; the model creates its Sim statistics and seeded streams in "
        "construct_model and observes stream draws through them. Differential "
        "oracle: trace, request outcomes, draws, notification stream, every "
        "statistics getter and the final clock of the second replication must "
        "equal those of a brand-new simulator + model running that replication; "
        "plus lock-step with the reference (clock == start, exactly the initial "
        "events and one warm-up pending, one live run thread). non-trivial = the "
        "prior history executed at least one handler and left events pending or "
        "the replication ended, and the second replication executed >= 2 "
        "handlers; distinct = digest of (program, stats, commands)")
COMPONENTS = {
    "real": ["pydsol.core.simulator (initialize/cleanup, run thread replacement)",
             "pydsol.core.model (output statistics map)", "pydsol.core.statistics (Sim*)",
             "pydsol.core.streams.MersenneTwister", "pydsol.core.eventlist", "pydsol.core.pubsub"],
    "stub": ["threading.Event/Lock (cooperative)", "time.time/sleep (virtual clock)",
             "stdout/stderr/logging (sunk)"]}
ASSUMPTIONS = ["re-initialisation is issued at quiescence (initialize while the run thread is STOPPING is a grace-period case, see C04)"]
KINDS = ["counter", "tally", "wtally", "persistent"]
HARNESS_ACTIONS = ("settle", "poll", "poll_stopped", "sleep", "drain")
PRIORS = ["never", "steps", "pause", "bounded", "ended", "fault", "refused", "cleanup_from_handler",
          "ended_by_command",
          "init_from_handler", "init_from_handler_after_stop", "ended_polling",
          "ended_polling"]


def init_worker():
    simrun.install()


def generate(seed, tier, idx=0):
    rng = common.rng_for(seed, "case")
    clock = rng.choice(["float", "float", "int"])
    prog = program.gen_program(rng, clock=clock,
                               n_events=rng.choice([3, 4, 5, 6, 8, 10, 14]),
                               p_cancel=0.08)
    if clock == "int":
        prog["rep"] = [int(x) for x in prog["rep"]]
    stats = [{"kind": rng.choice(KINDS), "via": rng.choice(["direct", "event", "event2", "event_ctor"])}
             for _ in range(rng.randint(1, 3))]
    if rng.random() < 0.25:
        case_plain = rng.randint(1, 3)
    else:
        case_plain = 0
    lists = [prog["roots"]] + [prog["events"][e] for e in program.event_ids(prog)]
    for al in lists:
        for _ in range(rng.choice([0, 1, 1, 2])):
            al.insert(rng.randint(0, len(al)),
                      ["obsdraw", rng.randrange(len(stats)), rng.randrange(2),
                       rng.choice(["float", "float", "int", "bool"])])
    prior = rng.choice(PRIORS)
    case = {"program": prog, "strategy": 3, "stats": stats, "prior": prior,
            "stream_seeds": [rng.randrange(1, 10 ** 6), rng.randrange(1, 10 ** 6)],
            "probe": rng.random() < 0.3, "sched": {"kind": "S0"},
            "sized_model": rng.random() < 0.1}
    if case_plain:
        case["plain_stats"] = case_plain
    if rng.random() < 0.25:
        case["held_list"] = True
    if rng.random() < 0.15 and all(sp["kind"] != "persistent" for sp in stats):
        # (an old persistent would be fed timestamps of the new replication)
        case["long_lived_producer"] = True
    eids = program.event_ids(prog)
    if prior == "fault":
        al = prog["events"][rng.choice(eids)]
        al.insert(rng.randint(0, len(al)), ["fail", rng.choice(program.EXCS)])
    if prior == "init_from_handler":
        al = prog["events"][rng.choice(eids)]
        al.insert(rng.randint(0, len(al)), ["cmd", "initialize"])
    if prior == "cleanup_from_handler":
        # a handler gives the replication up with cleanup() and runs on into its
        # ordinary scheduling code: those events are pending when the simulator is
        # initialised again
        busy = [e for e in eids if any(a[0] in ("rel", "now", "abs") for a in prog["events"][e])]
        al = prog["events"][rng.choice(busy or eids)]
        al.insert(0 if rng.random() < 0.7 else rng.randint(0, len(al)), ["cmd", "cleanup"])
    if prior == "init_from_handler_after_stop":
        # the handler requests a stop and then tries to re-initialise while the
        # run thread (itself) is still STOPPING: refused, nothing may change
        al = prog["events"][rng.choice(eids)]
        i = rng.randint(0, len(al))
        al.insert(i, ["cmd", "initialize"])
        al.insert(i, ["cmd", "stop"])
    ref = devscommon.make_ref(case)
    ref.initialize()
    cmds = [["initialize"], ["settle"]]
    if prior in ("pause", "ended_by_command"):
        full = devscommon.make_ref(case)
        full.initialize()
        full.run(full.end, True)
        n_exec = sum(1 for _, e in full.trace if e != "W")
        if n_exec >= 1:
            case["pause_at"] = [rng.randint(1, n_exec)]
            ref = devscommon.make_ref(case)
            ref.initialize()

    def apply(cmd):
        devscommon.ref_apply(ref, cmd)
        cmds.extend([cmd, ["settle"]])
    if prior == "steps":
        for _ in range(rng.randint(1, 4)):
            if ref.can_start() and not ref.step_at_boundary():
                apply(["step"])
    elif prior in ("pause", "fault", "init_from_handler", "init_from_handler_after_stop"):
        apply(["start"])
    elif prior == "ended_by_command":
        # paused by a handler, then ended by the caller with end_replication()
        apply(["start"])
        if ref.run_state == "STOPPED" and ref.rep_state == "STARTED":
            apply(["end_replication"])
    elif prior == "cleanup_from_handler":
        if rng.random() < 0.5:
            apply(["start"])
        else:
            # ... or the handler is executed by step(), on the caller thread
            for _ in range(12):
                if ref.cleaned_by_handler or not ref.can_start() or ref.step_at_boundary():
                    break
                apply(["step"])
    elif prior == "bounded":
        times = [t for t in ref.pending_times() if ref.clock <= t < ref.end]
        if times:
            t = rng.choice(times)
            apply([rng.choice(["run_up_to_incl", "run_up_to_incl", "run_up_to"]), t])
    elif prior == "ended":
        guard = 0
        while ref.run_state != "ENDED" and guard < 6 and ref.can_start():
            apply(["start"])
            guard += 1
    elif prior == "ended_polling":
        # the caller polls until the simulator no longer reports 'running' and
        # re-initialises at once, while the run thread may still be finishing
        guard = 0
        while ref.run_state != "ENDED" and guard < 6 and ref.can_start():
            devscommon.ref_apply(ref, ["start"])
            cmds.extend([["start"], ["poll_stopped"]])
            guard += 1
        case["sched"] = {"kind": rng.choice(["site", "site", "pct"]), "seed": seed,
                         "p": rng.choice([0.05, 0.02]), "q": rng.choice([0.5, 0.3]),
                         "d": rng.choice([1, 2, 3]), "step_cost_us": rng.choice([0, 1, 10])}
        if rng.random() < 0.6:
            # fault 'eager poller': the caller sees the published state a few
            # lines after publication while the run thread is descheduled
            case["sched"]["eager"] = [rng.choice([0.5, 0.01]), rng.choice([0, 1, 2, 3, 4, 6, 8, 10, 12, 15, 20, 25, 30, 40, 60])]
            if rng.random() < 0.5:
                case["sched"]["kind"] = "S0"
        if rng.random() < 0.2:
            case["sched"]["opcodes"] = True      # pre-emption between bytecodes
        if rng.random() < 0.4:
            case["sched"]["refill"] = True       # pre-emption budget per command
    elif prior == "refused":
        guard = 0
        while ref.run_state != "ENDED" and guard < 6 and ref.can_start():
            apply(["start"])
            guard += 1
        apply(["start"])           # refused: ended
    # the second replication
    rep2 = None
    if rng.random() < 0.35:
        s, w, l = prog["rep"]
        rep2 = [s + rng.choice([0, 1, 2]), rng.choice([0, 1, w]), l + rng.choice([0, 2, -1])]
        if clock == "int":
            rep2 = [int(x) for x in rep2]
        else:
            rep2 = [float(x) for x in rep2]
        if rep2[2] <= 0:
            rep2[2] = prog["rep"][2]
    # sometimes another model object takes a turn on the same simulator first
    # (paired comparison of two model variants: A, B, A)
    if rng.random() < 0.25 and not prog.get("initial"):
        # (an initial method is bound to one model object; not combined with a
        # second model object on the same simulator)
        devscommon.ref_apply(ref, ["initialize_b"])
        cmds.extend([["initialize_b"], ["settle"]])
        for _ in range(rng.choice([0, 1, 1, 2])):
            if ref.can_start():
                c = rng.choice([["start"], ["step"]]) if not ref.step_at_boundary() else ["start"]
                devscommon.ref_apply(ref, c)
                cmds.extend([c, ["settle"]])
        case["two_models"] = True
    init2 = ["initialize"] + ([rep2] if rep2 else [])
    if rng.random() < 0.1:
        # the re-initialisation first fails inside the user's construct_model and
        # is simply retried (no cleanup in between)
        cmds.extend([["initialize_failing"] + ([rep2] if rep2 else []), ["settle"]])
        case["failed_initialize"] = True
    case["reinit_at"] = len([c for c in cmds if c[0] not in HARNESS_ACTIONS])
    devscommon.ref_apply(ref, init2)
    tail = [init2, ["settle"]]
    if rng.random() < 0.35:
        # the new replication is (partly) driven by step()
        for _ in range(rng.randint(1, 4)):
            if ref.can_start() and ref.run_state != "ENDED":
                devscommon.ref_apply(ref, ["step"])
                tail += [["step"], ["settle"]]
    guard = 0
    while ref.run_state != "ENDED" and guard < 8 and ref.can_start():
        ref.run(ref.end, True)
        tail += [["start"], ["settle"]]
        guard += 1
    case["commands"] = cmds + tail
    case["tail"] = tail
    if prior != "ended_polling" and rng.random() < 0.2:
        case["sched"] = {"kind": rng.choice(["pct", "site"]), "seed": seed, "p": 0.01,
                         "q": 0.15, "d": rng.choice([1, 2]),
                         "step_cost_us": rng.choice([0, 10])}
    return case


OBS_KEYS = ("exe", "ntf", "req", "draw")
HARNESS_ACTIONS = ("settle", "poll", "poll_stopped", "sleep", "drain")


def observable(H, start=0, init_return=None):
    """Observable items of a replication.  Notifications that reach the
    collector between the invoke and the return of the (re-)initialize belong
    to the previous replication's subscription (the collector is re-subscribed
    only when initialize has returned) and are left out."""
    out = []
    for pos, h in enumerate(H[start:], start):
        if init_return is not None and pos < init_return and h[0] == "ntf":
            continue
        if h[0] == "exe":
            out.append(("exe", h[1], h[2]))
        elif h[0] == "ntf":
            out.append(("ntf", h[1], h[2]))
        elif h[0] == "req":
            out.append(("req",) + tuple(h[1:]))
        elif h[0] == "draw":
            out.append(h)
        elif h[0] == "quiet":
            # (run_state, replication_state, clock, pending, live run threads)
            out.append(("quiet", h[2], h[3], h[4], h[7], h[8]))
    return out


def execute(case):
    cnt = {}
    ext = statsext.StatsExt(case)
    r = simrun.Runner(case, ext=ext).run()
    findings, info = devscommon.evaluate_sequential(case, r)
    H = r.hist.H
    ref = info.get("ref")
    nontrivial = False
    if info.get("invalid"):
        findings = []
    elif not findings and ref is not None:
        # where does the second replication start in H?
        cmds = [c for c in devscommon.split_history(H) if not c["callback"]]
        c2 = cmds[case["reinit_at"]]
        start_pos = c2["invoke_pos"]
        # right after initialize: clock, pending events
        q = next((h for h in H[start_pos:] if h[0] == "quiet"), None)
        ref2 = devscommon.make_ref(case)
        ref2.initialize(case["tail"][0][1] if len(case["tail"][0]) > 1 else None)
        if q is not None and q[7] != len(ref2.pending):
            findings.append(("pending-after-initialize",
                             "right after the second initialize %d events are pending, "
                             "the model schedules %d initial events plus one warm-up "
                             "(reference %d)" % (q[7], len(ref2.pending) - 1,
                                                 len(ref2.pending))))
        # differential twin: brand-new simulator + model
        twin_case = copy.deepcopy(case)
        twin_case["commands"] = case["tail"]
        twin_case["sched"] = {"kind": "S0"}
        twin_case.pop("pause_at", None)
        ext2 = statsext.StatsExt(twin_case)
        t = simrun.Runner(twin_case, ext=ext2).run()
        if t.aborted:
            findings.append(("harness", "twin run aborted: %s" % t.aborted))
        else:
            a = observable(H, start_pos, c2["return_pos"])
            b = observable(t.hist.H, 0)
            # the twin's own initialize quiet record precedes its start
            d = devscommon.first_diff(a, b)
            if d is not None and not findings:
                findings.append(("replication-differs",
                                 "second replication differs from the same replication "
                                 "on a brand-new simulator and model at observable "
                                 "item %d: used simulator %s, fresh %s"
                                 % (d, a[d:d + 2], b[d:d + 2])))
            if not findings:
                for i, sp in enumerate(case["stats"]):
                    g = statsext.read_all(r.model.stats[i], sp["kind"])
                    e = statsext.read_all(t.model.stats[i], sp["kind"])
                    if g != e:
                        diff = {k: (g[k], e[k]) for k in g if g[k] != e.get(k)}
                        findings.append(("statistics-differ",
                                         "statistic #%d (%s) after the second replication "
                                         "differs from a fresh run: %s"
                                         % (i, sp["kind"], diff)))
                        break
                if r.final[:3] != t.final[:3]:
                    findings.append(("replication-differs", "final (run_state, "
                                     "replication_state, clock) %s vs fresh %s"
                                     % (r.final[:3], t.final[:3])))
            r.clean = r.clean and t.clean
        prior_exec = sum(1 for h in H[:start_pos] if h[0] == "exe")
        second_exec = sum(1 for h in H[start_pos:] if h[0] == "exe")
        nontrivial = prior_exec >= 1 and second_exec >= 2
        cnt["probe:prior_handlers_executed"] = prior_exec
    if ext.errors and not findings:
        findings.append(("observation-raised", ext.errors[0]))
    cnt["prior:" + case.get("prior", "?")] = 1
    if case.get("two_models"):
        cnt["prior:second_model_object_in_between"] = 1
    cnt["fault:reinitialize"] = 1
    res = {"digest": r.digest(), "clean": r.clean, "counters": cnt,
           "final_case": devscommon.replay_form(case, r),
           "sums": {},
           "nontrivial": nontrivial,
           "case_digest": common.digest8([case["program"], case["stats"], case["commands"]]),
           "observed": {"prior": case.get("prior"), "final": r.final if not r.aborted else None}}
    devscommon.detsim_stats(res, case, r)
    if findings:
        res["status"] = "violation"
        res["check_id"], res["message"] = findings[0]
        if findings[0][0] == "harness":
            res["status"] = "harness"
    else:
        res["status"] = "ok"
    return res


def case_size(case):
    p = case["program"]
    return {"events": len(p["events"]), "commands": len(case["commands"]),
            "stats": len(case["stats"])}


def shrink(case, fails):
    # the command structure (prior + tail) must stay consistent: shrink the
    # program and the prior commands only
    import copy as _c
    case = _c.deepcopy(case)
    n_tail = len(case["tail"])
    prior_cmds = case["commands"][:-n_tail]

    def rebuild(pc):
        c = _c.deepcopy(case)
        c["commands"] = pc + case["tail"]
        c["reinit_at"] = len([x for x in pc if x[0] not in HARNESS_ACTIONS])
        return c
    head, rest = prior_cmds[:2], prior_cmds[2:]
    rest = shr.ddmin(rest, lambda t: fails(rebuild(head + t)))
    case = rebuild(head + rest)
    prog = case["program"]
    changed = True
    while changed:
        changed = False
        for eid in sorted(prog["events"], key=int, reverse=True):
            if eid not in prog["events"]:
                continue
            p2 = program.remove_event(prog, eid)
            c = _c.deepcopy(case)
            c["program"] = p2
            if fails(c):
                prog = p2
                case["program"] = p2
                changed = True
    for i in range(len(case["stats"]) - 1, 0, -1):
        pass
    return case
