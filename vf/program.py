"""Model programs: plain-data descriptions of DEVS models (see DESIGN §2.4).

A program is a finite forest of event specs.  `roots` are the actions that
`construct_model` performs; `events[eid]` the actions of the handler of event
`eid`.  Every event id is scheduled by exactly one action, so programs
terminate.

Times/delays are dyadic multiples of the clock unit so that float arithmetic
is exact; ties on time and on (time, priority) are frequent by construction.
"""

DELAYS = [0, 0, 0.5, 1, 1, 2, 3, 0.25, 4, 1.5]
INT_DELAYS = [0, 0, 1, 1, 2, 3, 4, 1, 2, 5]
PRIOS = [1, 3, 5, 5, 5, 7, 10]
WIDE_PRIOS = [0, 0, -3, 11, 11, 12, 100, -1]
EXCS = ["RuntimeError", "ValueError", "ZeroDivisionError", "KeyError",
        "DSOLError", "AssertionError", "SystemExit", "KeyboardInterrupt", "HandlerGaveUp"]
BAD_KINDS = ["past_abs", "neg_rel", "nan_abs", "nan_rel", "str_abs",
             "none_abs", "str_rel", "past_event", "tiny_neg_rel", "tiny_neg_rel",
             "tiny_past_abs", "nan_event", "nan_sub_event", "nan_custom_event",
             "past_custom_event"]


def gen_program(rng, clock=None, n_events=None, p_cancel=0.12, p_bad=0.0,
                p_abs=0.2, fail_plan=None, max_children=3, rep=None, p_pre=0.15):
    """Generate a model program.  Returns a dict (JSON-able)."""
    if clock is None:
        clock = rng.choice(["float", "float", "int", "duration"])
    unit = rng.choice(["s", "min", "h"]) if clock == "duration" else None
    if n_events is None:
        n_events = rng.choice([3, 4, 5, 6, 8, 10, 12, 15, 20, 30, 40]) \
            if rng.random() < 0.5 else rng.randint(2, 9)
    delays = INT_DELAYS if clock == "int" else DELAYS
    display_unit = None
    if clock == "duration":
        # the simulator's display unit is independent of the unit the model uses;
        # some SI values (7.75 s, 15.5 s, 14.25 s ...) do not survive a
        # divide-and-multiply round trip through 'min' or 'h'
        display_unit = rng.choice(["s", "min", "h"])
        if unit == "s" and rng.random() < 0.5:
            delays = DELAYS + [7.75, 15.5, 14.25, 7.75]
    if rep is None:
        start = rng.choice([0, 0, 0, 1, 2, 10, -10, -4])
        length = rng.choice([2, 3, 4, 5, 6, 8, 10, 10, 20])
        if start < 0 and rng.random() < 0.5:
            length = -start          # a replication that ends exactly at time 0
        warm = rng.choice([0, 0, 1, 2, length // 2, length, length + 3])
        if clock != "int":
            start = float(start)
            length = float(length)
            warm = float(rng.choice([warm, warm, 0.5, 1.5]))
        elif rng.random() < 0.2:
            # int clocks far beyond 2**53 (e.g. nanosecond time stamps): exact
            # in int arithmetic, not representable as floats
            start = rng.choice([2 ** 53, 2 ** 53 + 1, 10 ** 18 + 7, 2 ** 63 + 3])
        rep = [start, warm, length]
    start, warm, length = rep
    end = start + length
    events = {}
    roots = []
    # build a forest: event i gets a parent among earlier events or the root
    next_id = [0]

    def new_event():
        next_id[0] += 1
        events[str(next_id[0])] = []
        return next_id[0]

    owners = [None]          # None = construct_model
    scheduled = []           # event ids already given a parent
    for _ in range(n_events):
        eid = new_event()
        # bias towards recent owners: chains and bushy trees
        if rng.random() < 0.35 or len(owners) == 1:
            owner = owners[rng.randrange(len(owners))]
        else:
            owner = owners[-1 - min(len(owners) - 1, int(rng.random() ** 2 * 4))]
        alist = roots if owner is None else events[str(owner)]
        prio = rng.choice(PRIOS)
        r = rng.random()
        if r < p_abs:
            # absolute time on the grid around the horizon (may lie in the
            # past of the owner -> refused by simulator and reference alike)
            t = start + rng.choice(delays) + rng.choice(delays)
            if rng.random() < 0.15:
                t = rng.choice([end, end, start + warm, end + 1, start])
            if clock == "int":
                t = int(t)
            alist.append(["abs", t, eid, prio])
        elif r < p_abs + 0.2:
            alist.append(["now", eid, prio])
        else:
            alist.append(["rel", rng.choice(delays), eid, prio])
        owners.append(eid)
        scheduled.append(eid)
        # sprinkle cancels / illegal requests into random earlier handlers
        if scheduled and rng.random() < p_cancel:
            who = owners[rng.randrange(len(owners))]
            tgt = scheduled[rng.randrange(len(scheduled))]
            wl = roots if who is None else events[str(who)]
            pos = rng.randint(0, len(wl))
            wl.insert(pos, ["cancel", tgt])
        if rng.random() < p_bad:
            who = owners[rng.randrange(len(owners))]
            wl = roots if who is None else events[str(who)]
            pos = rng.randint(0, len(wl))
            wl.insert(pos, ["bad", rng.choice(BAD_KINDS)])
    if rng.random() < p_pre:
        # some initial events are SimEvent objects built with the model (before
        # initialize) and handed to schedule_event(event) in construct_model;
        # they come first, in creation order, so creation and scheduling order agree
        pre = [a for a in roots if a[0] == "abs"][:rng.randint(1, 3)]
        if pre:
            rest = [a for a in roots if not any(a is b for b in pre)]
            roots = [["pre", a[1], a[2], a[3]] for a in pre] + rest
            if rng.random() < 0.5:
                # the handler of a pre-built event hands the same (now executed) object
                # to schedule_event again and cancels it at once
                e0 = pre[0][2]
                events[str(e0)].append(["repre", e0])
    initial = []
    if rng.random() < 0.12:
        # an "initial method" (Simulator.add_initial_method): executed at the end
        # of every initialize, after construct_model, before the warm-up is scheduled
        movable = [a for a in roots if a[0] in ("now", "rel", "abs")]
        if movable:
            a = movable[-1]
            roots = [x for x in roots if x is not a]
            initial = [a]
    prog = {"clock": clock, "rep": rep, "roots": roots, "events": events}
    if initial:
        prog["initial"] = initial
    if rng.random() < 0.15:
        # True: every third event is an own SimEventInterface implementation;
        # "subclass": the others are objects of two SimEvent subclasses; "both"
        prog["custom_events"] = rng.choice([True, "subclass", "subclass", "both"])
    if clock == "float" and rng.random() < 0.15:
        prog["int_literals"] = True        # whole numbers are passed as Python ints
    if rng.random() < 0.12:
        # "typically, priorities are numbered 1 through 10": any int is legal
        lists = [roots, initial] + list(events.values())
        for al in lists:
            for a in al:
                if a[0] in ("abs", "rel", "pre") and rng.random() < 0.35:
                    a[3] = rng.choice(WIDE_PRIOS)
                elif a[0] == "now" and rng.random() < 0.35:
                    a[2] = rng.choice(WIDE_PRIOS)
    if rng.random() < 0.12:
        prog["kwcalls"] = True          # documented parameter names passed by keyword
    if rng.random() < 0.12:
        add_tc_listener(rng, prog)
    if rng.random() < 0.15:
        prog["temp_targets"] = True      # handlers on temporary objects (see simrun.Entity)
    if rng.random() < 0.08:
        # a handler (or construct_model) runs a second simulator to its end
        n = rng.randint(1, 5)
        spec = {"n": n, "bound": rng.choice([None, None, 1, 2, n])}
        lists = [roots] + [events[e] for e in sorted(events, key=int) if int(e) < 9000]
        al = rng.choice(lists)
        al.insert(rng.randint(0, len(al)), ["nested", spec])
    if unit:
        prog["unit"] = unit
        prog["display_unit"] = display_unit
    return prog


def add_tc_listener(rng, prog):
    """A TIME_CHANGED subscriber that, when a chosen time is announced, schedules
    a new event at that very time (any priority) or cancels an event.  The
    times are taken from a dry run of the reference, so most of them occur."""
    from vf.models.refdevs import RefDEVS
    probe = dict(prog)
    probe["strategy"] = 1
    ref = RefDEVS(probe)
    ref.initialize()
    ref.run(ref.end, True)
    times = sorted(set(t for t, e in ref.trace if t > ref.start))
    if not times:
        return
    ids = event_ids(prog)
    acts = []
    for k in range(rng.randint(1, 3)):
        T = rng.choice(times)
        if rng.random() < 0.7 or not ids:
            eid = 9001 + k
            prog["events"][str(eid)] = []
            acts.append([T, ["abs", T, eid, rng.choice([1, 5, 5, 10, 10])]])
        else:
            acts.append([T, ["cancel", int(rng.choice(ids))]])
    prog["tc_listener"] = acts


def count_actions(prog, kind):
    n = sum(1 for a in prog["roots"] + prog.get("initial", []) if a[0] == kind)
    for al in prog["events"].values():
        n += sum(1 for a in al if a[0] == kind)
    return n


def event_ids(prog):
    return sorted(prog["events"], key=int)


def remove_event(prog, eid):
    """Return a copy of the program without event `eid` and its whole
    sub-tree (used by the shrinker)."""
    eid = str(eid)
    doomed = set()

    def collect(e):
        doomed.add(e)
        for a in prog["events"].get(e, []):
            c = child_of(a)
            if c is not None:
                collect(str(c))
    collect(eid)

    def keep(a):
        c = child_of(a)
        if c is not None and str(c) in doomed:
            return False
        if a[0] == "cancel" and str(a[1]) in doomed:
            return False
        return True
    new = dict(prog)
    if prog.get("initial"):
        new["initial"] = [a for a in prog["initial"] if keep(a)]
    new["roots"] = [a for a in prog["roots"] if keep(a)]
    new["events"] = {e: [a for a in al if keep(a)]
                     for e, al in prog["events"].items() if e not in doomed}
    return new


def child_of(action):
    k = action[0]
    if k == "now":
        return action[1]
    if k in ("rel", "abs", "pre"):
        return action[2]
    return None
