"""Generic check runner: seed farm, known findings, minimisation, replay
files, evidence, exit codes (0 held / 1 violation / 2 harness error)."""
import importlib
import json
import os
import re
import subprocess
import sys
import time

from vf import common, farm

EVIDENCE_DIR = os.path.join(common.VERIF_DIR, "evidence")
REPLAY_DIR = os.path.join(common.VERIF_DIR, "replays")
FINDINGS = os.path.join(common.VERIF_DIR, "known_findings.jsonl")

CHECKS = {
    "C01": "vf.checks.c01", "C02": "vf.checks.c02", "C03": "vf.checks.c03",
    "C04": "vf.checks.c04", "C05": "vf.checks.c05", "C06": "vf.checks.c06",
    "C07": "vf.checks.c07", "C08": "vf.checks.c08", "C09": "vf.checks.c09",
    "C10": "vf.checks.c10", "C11": "vf.checks.c11", "C12": "vf.checks.c12",
    "C13": "vf.checks.c13", "C14": "vf.checks.c14", "C18": "vf.checks.c18",
}


def load_module(prop):
    return importlib.import_module(CHECKS[prop])


def load_findings(prop):
    out = []
    if os.path.exists(FINDINGS):
        with open(FINDINGS) as f:
            for line in f:
                line = line.strip()
                if not line or line.startswith("#"):
                    continue
                d = json.loads(line)
                if d.get("property") == prop and d.get("status") == "open":
                    out.append(d)
    return out


def out(msg):
    sys.__stdout__.write(msg + "\n")
    sys.__stdout__.flush()


def err(msg):
    sys.__stderr__.write(msg + "\n")
    sys.__stderr__.flush()


class _WriteOnly:
    """A stand-in for sys.stdout / sys.stderr that has write() and nothing else."""
    __slots__ = ()

    def write(self, text):
        return len(text)


def safe_execute(mod, case):
    """mod.execute(case); an exception that escapes from the system under test
    (innermost frame inside the pydsol sources) is a violation of totality /
    containment, anything else is a harness error."""
    import traceback
    lvl = case.get("_log_level") if isinstance(case, dict) else None
    werr = case.get("_warnings") == "error" if isinstance(case, dict) else False
    if lvl is not None:
        common.library_log_level(lvl)
    import warnings
    saved_filters = warnings.filters[:]
    if werr:
        # configuration knob: the process treats warnings as errors (-W error)
        warnings.simplefilter("error")
    outmode = case.get("_stdout") if isinstance(case, dict) else None
    saved_out = (sys.stdout, sys.stderr)
    if outmode == "none":
        # configuration knob: a process without standard streams (pythonw, a service):
        # print() and traceback printing are silent no-ops there
        sys.stdout = sys.stderr = None
    elif outmode == "writeonly":
        # ... or with a minimal redirect object that only implements write()
        sys.stdout = sys.stderr = _WriteOnly()
    try:
        try:
            return mod.execute(case)
        finally:
            if outmode is not None:
                sys.stdout, sys.stderr = saved_out
            if werr:
                warnings.filters[:] = saved_filters
            if lvl is not None:
                common.library_log_level(50)
    except Exception as e:
        tb = traceback.extract_tb(e.__traceback__)
        src = os.path.abspath(common.REPO_SRC)
        inner = tb[-1] if tb else None
        in_sut = inner is not None and os.path.abspath(inner.filename).startswith(src)
        where = "%s:%s in %s" % (os.path.basename(inner.filename), inner.lineno, inner.name) \
            if inner else "?"
        if in_sut:
            return {"status": "violation", "check_id": "unexpected-exception",
                    "message": "%s: %s escaped from %s" % (type(e).__name__, e, where),
                    "digest": common.digest([case, "unexpected-exception", type(e).__name__]),
                    "clean": False, "nontrivial": False, "case_digest": 0, "counters": {}}
        return {"status": "harness", "check_id": "harness",
                "message": "harness exception %s: %s at %s\n%s"
                           % (type(e).__name__, e, where, traceback.format_exc()[-1500:]),
                "digest": None, "clean": False, "nontrivial": False, "case_digest": 0,
                "counters": {}}


class _RunOne:
    """Callable executed in the workers: generate + execute one index."""

    def __init__(self, mod, base_seed, tier, n_samples):
        self.mod = mod
        self.base_seed = base_seed
        self.tier = tier
        self.n_samples = n_samples

    def __call__(self, idx, agg):
        mod = self.mod
        seed = common.derive_seed(self.base_seed, mod.PROPERTY, idx)
        case = mod.generate(seed, self.tier, idx)
        if isinstance(case, dict) and seed % 10 == 3 and not case.get("skip") and not case.get("pinned"):
            # configuration swarm: the library's loggers at DEBUG in 10 % of the runs
            case["_log_level"] = 10
            agg.count("fault:log_level_DEBUG(runs)")
        if isinstance(case, dict) and seed % 20 == 7 and not case.get("skip") and not case.get("pinned"):
            # ... and warnings treated as errors in 5 %
            case["_warnings"] = "error"
            agg.count("fault:warnings_as_errors(runs)")
        if isinstance(case, dict) and seed % 25 == 11 and not case.get("skip") and not case.get("pinned"):
            # ... and no usable standard streams in 4 %
            case["_stdout"] = "none" if seed % 50 == 11 else "writeonly"
            agg.count("fault:no_standard_streams(runs)")
        res = safe_execute(mod, case)
        if res.get("fail_case") is not None:
            knobs = {k: v for k, v in case.items() if k.startswith("_")} \
                if isinstance(case, dict) else {}
            case = res["fail_case"]
            if isinstance(case, dict):
                case.update(knobs)        # (the process configuration the failure was seen under)
        agg.evaluations += res.get("evaluations", 1)
        for k, v in res.get("counters", {}).items():
            agg.count(k, v)
        for k, v in res.get("sums", {}).items():
            agg.add(k, v)
        for k, items in res.get("sets", {}).items():
            s = agg.sets.setdefault(k, set())
            s.update(items)
        for d in res.get("nontrivial_digests", ()):
            agg.nontrivial.add(d)
        if res.get("nontrivial"):
            agg.nontrivial.add(res["case_digest"])
        if (res.get("nontrivial") or res.get("nontrivial_digests")) and res["status"] == "ok":
            cls = res.get("sample_class", "default")
            if cls not in agg.sample_classes and len(agg.samples) < 3:
                agg.sample_classes.add(cls)
                c = case
                if len(common.canon(c)) > 6000:
                    c = {"truncated": common.canon(c)[:6000]}
                agg.samples.append({"index": idx, "seed": seed, "class": cls, "case": c,
                                    "observed": res.get("observed")})
        if res["status"] != "ok" and res.get("finding"):
            fid = res["finding"]
            agg.count("known:" + fid)
            if agg.counters["known:" + fid] <= 2:
                agg.samples_known = getattr(agg, "samples_known", [])
                agg.known.append({
                    "index": idx, "seed": seed, "status": res["status"],
                    "check_id": res.get("check_id"), "message": res.get("message"),
                    "finding": fid, "case": case, "digest": res.get("digest")})
        elif res["status"] != "ok":
            agg.failures.append({
                "index": idx, "seed": seed, "status": res["status"],
                "check_id": res.get("check_id"), "message": res.get("message"),
                "finding": res.get("finding"), "case": case,
                "digest": res.get("digest")})
        return res.get("clean", True)


def _init_worker(mod):
    def init():
        from vf import simrun_quiet
        simrun_quiet.quiet()
        if hasattr(mod, "init_worker"):
            mod.init_worker()
    return init


def execute_isolated(mod, case):
    return farm.isolated(_exec_strip, mod.__name__, case)


def _exec_strip(modname, case):
    from vf import simrun_quiet
    simrun_quiet.quiet()
    mod = importlib.import_module(modname)
    if hasattr(mod, "init_worker"):
        mod.init_worker()
    res = safe_execute(mod, case)
    return {k: res.get(k) for k in ("status", "check_id", "message",
                                    "finding", "digest", "final_case")}


def minimise(mod, failure, budget_s=120, repeat=1):
    """Shrink the failing case while the same check id keeps failing
    (`repeat` consecutive times: used when the failing behaviour of the code
    under test turned out to be nondeterministic itself)."""
    case = failure["case"]
    check_id = failure["check_id"]
    t0 = time.time()
    evals = [0]

    def fails(c):
        for _ in range(repeat):
            if time.time() - t0 > budget_s:
                return False
            evals[0] += 1
            r = execute_isolated(mod, c)
            if not (r["status"] == "violation" and r["check_id"] == check_id
                    and not r.get("finding")):
                return False
        return True

    if not fails(case):
        return None, evals[0]
    if hasattr(mod, "shrink"):
        case = mod.shrink(case, fails)
    return case, evals[0]


def write_replay(mod, failure, case, res, size_before):
    os.makedirs(REPLAY_DIR, exist_ok=True)
    rep = {
        "format": 1, "property": mod.PROPERTY, "check_id": res["check_id"],
        "tree": common.tree_fingerprint(), "seed": failure["seed"],
        "index": failure["index"], "case": case,
        "expect": {"message": res["message"], "digest": res["digest"]},
        "python_flags": common.py_flags(),
        "minimised_from": size_before,
        "minimised_to": mod.case_size(case) if hasattr(mod, "case_size") else None,
    }
    name = "%s-%d-%s.json" % (mod.PROPERTY, failure["seed"] % 10**10,
                              (res["digest"] or "x")[:8])
    path = os.path.join(REPLAY_DIR, name)
    with open(path, "w") as f:
        json.dump(rep, f, indent=1, sort_keys=True)
    return path


def replay_file(path, quiet=False):
    """Re-execute a replay file in this process.  Returns the result dict."""
    with open(path) as f:
        rep = json.load(f)
    mod = load_module(rep["property"])
    from vf import simrun_quiet
    simrun_quiet.quiet()
    if hasattr(mod, "init_worker"):
        mod.init_worker()
    res = safe_execute(mod, rep["case"])
    same_tree = rep.get("tree") == common.tree_fingerprint()
    if not quiet:
        out("REPLAY property=%s check_id=%s status=%s digest=%s expected_check_id=%s "
            "expected_digest=%s tree_matches=%s"
            % (rep["property"], res.get("check_id"), res["status"],
               res.get("digest"), rep["check_id"], rep["expect"]["digest"],
               same_tree))
        if res["status"] == "violation":
            out("  " + str(res.get("message")))
            if res.get("finding"):
                out("KNOWN-FINDING: property=%s %s" % (rep["property"], res["finding"]))
            else:
                out("VIOLATION property=%s replay=%s" % (rep["property"], path))
    return rep, res


def verify_replay_fresh(path):
    """Replay the file in a fresh interpreter; return (check_id, digest)."""
    env = dict(os.environ)
    env["PYTHONHASHSEED"] = "0"
    p = subprocess.run([common.PYTHON] + common.py_flags() + ["-m", "vf.cli", "replay", path],
                       cwd=common.VERIF_DIR, env=env, capture_output=True,
                       text=True, timeout=600)
    for line in p.stdout.splitlines():
        if line.startswith("REPLAY "):
            kv = dict(x.split("=", 1) for x in line.split()[1:] if "=" in x)
            return kv.get("check_id"), kv.get("digest"), kv.get("status")
    return None, None, "no-output:" + p.stdout[-500:] + p.stderr[-500:]


def _optimized(mod, prop, tier, base_seed, budget, workers):
    """Fault 'interpreter flags': a slice of the budget is run in a child
    interpreter started with -O (asserts stripped, __debug__ False) on seed
    indices after the main range.  Returns (exit code, runs, output lines)."""
    share = getattr(mod, "OPTIMIZED_SHARE", 0.04)
    n = int(min(max(budget * share, 8 if budget < 500 else 200), 6000))
    n = max(1, min(n, budget))
    cmd = [common.PYTHON, "-O", "-m", "vf.cli", "run", prop, "--tier", tier,
           "--runs", str(n), "--first-index", str(budget), "--no-evidence",
           "--no-optimized-pass"]
    if workers:
        cmd += ["--workers", str(workers)]
    env = dict(os.environ)
    env["VERIF_SEED"] = str(base_seed)
    p = subprocess.run(cmd, cwd=common.VERIF_DIR, env=env, capture_output=True, text=True,
                       timeout=3600)
    lines = [l for l in (p.stdout + p.stderr).splitlines()
             if l.startswith(("VIOLATION", "  check=", "  minimised", "  the ", "HARNESS-ERROR"))]
    m = re.search(r": (\d+) evaluations \((\d+) runs", p.stdout)
    evals = int(m.group(1)) if m else 0
    return p.returncode, n, evals, lines


def run_check(prop, tier, base_seed, runs=None, workers=None, wall_cap=None,
              write_evidence=True, first_index=0, optimized_pass=True):
    mod = load_module(prop)
    t0 = time.time()
    budget = runs if runs is not None else mod.BUDGET[tier]
    if wall_cap is None:
        wall_cap = getattr(mod, "WALL_CAP", {"quick": 240, "thorough": 3600})[tier]
    findings = load_findings(prop)
    run_one = _RunOne(mod, base_seed, tier, 3)
    try:
        pre = mod.pre_run(tier, base_seed) if hasattr(mod, "pre_run") else None
        agg, completed, capped = farm.run_farm(
            run_one, budget, workers=workers, init=_init_worker(mod),
            chunk=getattr(mod, "CHUNK", 200), wall_cap=wall_cap,
            chunk_timeout=getattr(mod, "CHUNK_TIMEOUT", 600), first_index=first_index)
    except farm.HarnessError as e:
        err("HARNESS-ERROR property=%s: %s" % (prop, e))
        return 2
    if pre:
        agg.merge(pre)
    # ---- classify failures ------------------------------------------------
    known = {}
    unknown = {}
    harness = []
    for f in agg.failures + agg.known:
        if f["status"] == "harness":
            harness.append(f)
        elif f.get("finding"):
            known.setdefault(f["finding"], []).append(f)
        else:
            unknown.setdefault(f["check_id"], []).append(f)
    open_ids = {d["id"]: d for d in findings}
    violations = 0
    exit_code = 0
    for fid, fl in sorted(known.items()):
        if fid in open_ids:
            out("KNOWN-FINDING: property=%s %s %s (matched in %d runs, "
                "e.g. seed index %d)"
                % (prop, fid, open_ids[fid]["what"],
                   agg.counters.get("known:" + fid, len(fl)), fl[0]["index"]))
        else:
            # a finding id the committed file does not list: not suppressed
            unknown.setdefault(fl[0]["check_id"], []).extend(fl)
    for h in harness[:3]:
        err("HARNESS-ERROR property=%s index=%s: %s"
            % (prop, h["index"], h["message"]))
        exit_code = 2
    for check_id, fl in sorted(unknown.items(), key=lambda kv: str(kv[0])):
        f = min(fl, key=lambda x: len(common.canon(x["case"])))
        size_before = mod.case_size(f["case"]) if hasattr(mod, "case_size") else None
        try:
            small, evals = minimise(mod, f)
        except farm.HarnessError as e:
            err("HARNESS-ERROR property=%s while minimising: %s" % (prop, e))
            exit_code = 2
            continue
        statistical = getattr(mod, "VIOLATION_IS_NONDETERMINISM", False)
        if small is None and statistical:
            # the violation *is* a difference between two real executions of
            # the same case (process-level nondeterminism): it need not show
            # up again in every re-execution.  Report it with what was observed.
            os.makedirs(REPLAY_DIR, exist_ok=True)
            res = {"check_id": check_id, "message": f["message"], "digest": f["digest"]}
            path = write_replay(mod, f, f["case"], res, size_before)
            seen = 0
            for _ in range(4):
                cid, dig, st = verify_replay_fresh(path)
                seen += 1 if cid == check_id else 0
            violations += 1
            out("VIOLATION property=%s replay=%s" % (prop, path))
            out("  check=%s: %s" % (check_id, f["message"]))
            out("  the violation is nondeterminism between interpreter processes; the "
                "replay file re-runs the same children and reproduced it in %d of 4 "
                "fresh attempts" % seen)
            continue
        if small is None:
            err("HARNESS-ERROR property=%s check=%s index=%d: failure did not "
                "reproduce in an isolated re-execution (nondeterministic "
                "harness?)" % (prop, check_id, f["index"]))
            exit_code = 2
            continue
        res = execute_isolated(mod, small)
        flaky = False
        if not (res["status"] == "violation" and res.get("check_id") == check_id):
            # the shrunk case does not fail every time: the failing behaviour of
            # the code under test is nondeterministic itself (e.g. it consults OS
            # entropy); shrink again demanding three consecutive failures and fall
            # back to the case as found
            flaky = True
            try:
                small, e3 = minimise(mod, f, budget_s=60, repeat=3)
                evals += e3
            except farm.HarnessError:
                small = None
            if small is None:
                small = f["case"]
            for _ in range(6):
                res = execute_isolated(mod, small)
                if res["status"] == "violation" and res.get("check_id") == check_id:
                    break
            else:
                err("HARNESS-ERROR property=%s check=%s index=%d: failure did not "
                    "reproduce in 6 isolated re-executions" % (prop, check_id, f["index"]))
                exit_code = 2
                continue
        if res.get("final_case") is not None:
            small2 = res["final_case"]
            r2 = execute_isolated(mod, small2)
            if r2["status"] == "violation" and r2["check_id"] == check_id:
                small, res = small2, r2
                f2 = dict(f)
                f2["case"] = small
                try:
                    s3, e3 = minimise(mod, f2, budget_s=60)
                    if s3 is not None:
                        small = s3
                        res = execute_isolated(mod, small)
                        evals += e3
                except farm.HarnessError:
                    pass
        path = write_replay(mod, f, small, res, size_before)
        cid, dig, st = verify_replay_fresh(path)
        if statistical and (cid != check_id or dig != res["digest"]):
            seen = sum(1 for _ in range(4) if verify_replay_fresh(path)[0] == check_id)
            violations += 1
            out("VIOLATION property=%s replay=%s" % (prop, path))
            out("  check=%s: %s" % (check_id, res.get("message") or f["message"]))
            out("  the violation is nondeterminism between interpreter processes; the "
                "replay reproduced it in %d of 4 further fresh attempts" % seen)
            continue
        if flaky and (cid != check_id or dig != res["digest"]):
            seen = 0
            for _ in range(6):
                c2, d2, _s = verify_replay_fresh(path)
                seen += 1 if (c2 == check_id and d2 == res["digest"]) else 0
            if seen:
                violations += 1
                out("VIOLATION property=%s replay=%s" % (prop, path))
                out("  check=%s: %s" % (check_id, res["message"]))
                out("  the failing behaviour is itself nondeterministic (the same case does "
                    "not fail in every execution): the replay file reproduced it in %d of 6 "
                    "further fresh attempts" % seen)
                continue
        if cid != check_id or dig != res["digest"]:
            err("HARNESS-ERROR property=%s: replay of %s in a fresh "
                "interpreter gave check_id=%s digest=%s status=%s, expected "
                "%s %s" % (prop, path, cid, dig, st, check_id, res["digest"]))
            exit_code = 2
            continue
        violations += 1
        out("VIOLATION property=%s replay=%s" % (prop, path))
        out("  check=%s: %s" % (check_id, res["message"]))
        out("  minimised with %d evaluations from %s to %s; %d failing runs "
            "of this check among those reported"
            % (evals, size_before,
               mod.case_size(small) if hasattr(mod, "case_size") else None,
               len(fl)))
    if optimized_pass and not sys.flags.optimize and exit_code != 2:
        # the same check on further seeds under `python -O`
        try:
            rc, n_opt, ev_opt, lines = _optimized(mod, prop, tier, base_seed, budget, workers)
        except Exception as e:       # noqa: BLE001
            err("HARNESS-ERROR property=%s optimised pass: %s" % (prop, e))
            rc, n_opt, ev_opt, lines = 2, 0, 0, []
        for l in lines:
            out(l)
        agg.counters["fault:interpreter_flag_O(runs)"] = n_opt
        agg.counters["optimized_pass_evaluations"] = ev_opt
        if rc == 1:
            violations += sum(1 for l in lines if l.startswith("VIOLATION"))
        elif rc != 0:
            exit_code = 2
    if violations and exit_code == 0:
        exit_code = 1
    wall = time.time() - t0
    if write_evidence:
        ev = build_evidence(mod, tier, base_seed, agg, completed, capped, wall,
                            violations, known)
        os.makedirs(EVIDENCE_DIR, exist_ok=True)
        with open(os.path.join(EVIDENCE_DIR, prop + ".json"), "w") as f:
            json.dump(ev, f, indent=1, sort_keys=True, default=str)
    out("%s tier=%s seed=%d: %d evaluations (%d runs of %d budgeted%s%s), %d distinct "
        "non-trivial, %d violation(s), %d known finding(s), %.1fs"
        % (prop, tier, base_seed, agg.evaluations, completed, budget,
           ", stopped early" if capped else "",
           "; +%d runs under python -O" % agg.counters["fault:interpreter_flag_O(runs)"]
           if agg.counters.get("fault:interpreter_flag_O(runs)") else "",
           len(agg.nontrivial), violations,
           len([k for k in known if k in open_ids]), wall))
    return exit_code


def build_evidence(mod, tier, base_seed, agg, completed, capped, wall,
                   violations, known):
    cov = {
        "evaluations": agg.evaluations,
        "distinct_nontrivial": len(agg.nontrivial),
        "rule": mod.RULE,
        "samples": agg.samples[:4],
        "runs_completed": completed,
        "budget": mod.BUDGET[tier],
        "wall_capped": capped,
        "runs_per_hour": int(completed / wall * 3600) if wall > 0 else 0,
        "seed_derivation": "seed_i = sha256(VERIF_SEED|%s|i)[:8], i in [0,%d)"
                           % (mod.PROPERTY, completed),
        "counters": dict(sorted(agg.counters.items())),
        "sums": dict(sorted(agg.sums.items())),
        "distinct": {k: len(v) for k, v in sorted(agg.sets.items())},
        "components": getattr(mod, "COMPONENTS", None),
        "known_findings_matched": {k: agg.counters.get("known:" + k, len(v))
                                   for k, v in known.items()},
        "tree": common.tree_fingerprint(),
    }
    faults = {k[6:]: v for k, v in agg.counters.items() if k.startswith("fault:")}
    probes = {k[6:]: v for k, v in agg.counters.items() if k.startswith("probe:")}
    if faults:
        cov["faults_fired"] = faults
    if probes:
        cov["probes"] = probes
    if hasattr(mod, "extra_evidence"):
        cov.update(mod.extra_evidence(agg, tier))
    return {
        "property_id": mod.PROPERTY, "tier": tier, "seed": base_seed,
        "level": mod.LEVEL, "coverage": cov,
        "assumptions": getattr(mod, "ASSUMPTIONS", []),
        "wall_s": round(wall, 2), "violations": violations,
    }
