"""Shared helpers: repo path, seed derivation, digests, PRNG."""
import hashlib
import json
import os
import random
import sys

VERIF_DIR = os.path.dirname(os.path.dirname(os.path.abspath(__file__)))
REPO_SRC = os.environ.get("VERIF_REPO_SRC", "/repo/src")
PYTHON = "/venv/bin/python"


LIBRARY_LOGGERS = ("utils", "distributions", "eventlist", "pubsub", "interfaces", "model",
                   "parameters", "simevent", "simulator", "statistics", "streams", "units")
_log_sink = None


def library_log_level(level):
    """Configuration knob: the level of the library's module loggers (default
    CRITICAL; a user tracing a problem sets DEBUG).  Their handlers write to a
    sink, so output never mixes with the check's own."""
    import logging
    import os as _os
    global _log_sink
    if _log_sink is None:
        _log_sink = open(_os.devnull, "w")
    for name in LIBRARY_LOGGERS:
        lg = logging.getLogger(name)
        for h in lg.handlers:
            if getattr(h, "stream", None) is not _log_sink and hasattr(h, "setStream"):
                h.setStream(_log_sink)
        if not lg.handlers:
            lg.addHandler(logging.StreamHandler(_log_sink))
        for h in lg.handlers:
            # the handler lock is a real lock: formatting a record may call __str__
            # of library objects (pre-emption points under the baton scheduler), and
            # a thread parked while holding a real lock would block the other one
            # for ever.  The sink needs no lock.
            h.lock = None
        lg.propagate = False          # (records are formatted and emitted, into the sink)
        lg.setLevel(level)
    # the workers switch logging off globally (noise); a case that sets a level
    # below CRITICAL switches it on for its duration
    logging.disable(logging.NOTSET if level < 50 else logging.CRITICAL)


def py_flags():
    """Interpreter flags of this process that child interpreters must share
    (-O strips asserts and sets __debug__ = False)."""
    import sys as _sys
    return ["-O"] if _sys.flags.optimize else []


def use_repo():
    """Make `import pydsol` resolve to the current working tree of the repo
    (or to the scratch copy named by VERIF_REPO_SRC)."""
    src = os.path.abspath(REPO_SRC)
    if sys.path[0] != src:
        if src in sys.path:
            sys.path.remove(src)
        sys.path.insert(0, src)
    # a previously imported pydsol from another place would be a harness error
    mod = sys.modules.get("pydsol.core.simulator")
    if mod is not None and not os.path.abspath(mod.__file__).startswith(src):
        raise RuntimeError("pydsol imported from %s, expected %s"
                           % (mod.__file__, src))
    return src


def derive_seed(base: int, prop: str, index: int, salt: str = "") -> int:
    h = hashlib.sha256(("%d|%s|%d|%s" % (base, prop, index, salt)).encode())
    return int.from_bytes(h.digest()[:8], "big")


def rng_for(seed: int, salt: str = "") -> random.Random:
    """A private PRNG; `salt` separates independent decision streams of one
    run (case generation, schedule decisions) so neither perturbs the other."""
    h = hashlib.sha256(("%d/%s" % (seed, salt)).encode()).digest()
    return random.Random(int.from_bytes(h[:16], "big"))


def canon(obj) -> str:
    return json.dumps(obj, sort_keys=True, separators=(",", ":"),
                      default=_default)


def _default(o):
    if isinstance(o, (set, frozenset)):
        return sorted(o)
    if isinstance(o, tuple):
        return list(o)
    return repr(o)


def digest(obj) -> str:
    return hashlib.sha256(canon(obj).encode()).hexdigest()


def digest8(obj) -> int:
    return int.from_bytes(hashlib.sha256(canon(obj).encode()).digest()[:8],
                          "big")


_TREE = None


def tree_fingerprint() -> str:
    """sha256 of the concatenated pydsol/core/*.py of the tree under test."""
    global _TREE
    if _TREE is None:
        h = hashlib.sha256()
        d = os.path.join(REPO_SRC, "pydsol", "core")
        for fn in sorted(os.listdir(d)):
            if fn.endswith(".py"):
                h.update(fn.encode())
                with open(os.path.join(d, fn), "rb") as f:
                    h.update(f.read())
        _TREE = h.hexdigest()
    return _TREE


def fhex(x):
    """Stable, exact text for a float-like value (incl. nan/inf, Duration)."""
    try:
        return float(x).hex()
    except Exception:
        return repr(x)
