"""Trusting the simulator itself (DESIGN §2.8).

determinism: every property's runs are executed for the same seed indices in
several fresh interpreter processes that differ in worker count and in the
harness's own PYTHONHASHSEED; the per-run digests (event log, yield-point
digest, decisions, virtual clock) must be identical.
"""
import json
import os
import subprocess
import sys
import time

from vf import common, farm, runner

DEFAULT_PROPS = ["C02", "C03", "C04", "C05", "C06", "C11", "C01", "C08", "C09",
                 "C10", "C12", "C14", "C18"]


class _Dig:
    def __init__(self, mod, base_seed, tier):
        self.mod = mod
        self.base_seed = base_seed
        self.tier = tier

    def __call__(self, idx, agg):
        seed = common.derive_seed(self.base_seed, self.mod.PROPERTY, idx)
        case = self.mod.generate(seed, self.tier, idx)
        res = self.mod.execute(case)
        agg.seen("d", (idx, res.get("digest"), res["status"]))
        agg.evaluations += 1
        return res.get("clean", True)


def digests(prop, n, workers, base_seed=0, offset=0):
    mod = runner.load_module(prop)
    agg, completed, capped = farm.run_farm(
        _Dig(mod, base_seed, "quick"), n, workers=workers,
        init=runner._init_worker(mod), chunk=max(1, n // (workers * 3) or 1),
        first_index=offset)
    return sorted(agg.sets.get("d", ()))


def cli_digests(prop, n, workers, offset):
    d = digests(prop, n, workers, int(os.environ.get("VERIF_SEED", "0") or 0), offset)
    sys.__stdout__.write(json.dumps(d) + "\n")
    sys.__stdout__.flush()
    return 0


def _spawn(prop, n, workers, hashseed, offset):
    env = dict(os.environ)
    env["PYTHONHASHSEED"] = str(hashseed)
    env["PYTHONWARNINGS"] = "ignore"
    return subprocess.Popen([common.PYTHON, "-m", "vf.cli", "digests", prop, "--n", str(n),
                             "--workers", str(workers), "--offset", str(offset)],
                            cwd=common.VERIF_DIR, env=env, stdout=subprocess.PIPE,
                            stderr=subprocess.PIPE, text=True)


def main(n_seeds, props):
    props = props or DEFAULT_PROPS
    t0 = time.time()
    ok = True
    report = {}
    configs = [(1, 0), (16, 0), (16, 12345), (5, 777)]
    for prop in props:
        mod = runner.load_module(prop)
        offset = getattr(mod, "N_EXH", 0) if prop == "C04" else 0
        n = n_seeds if prop not in ("C05",) else max(4, n_seeds // 20)
        procs = [(c, _spawn(prop, n, c[0], c[1], offset)) for c in configs]
        outs = []
        for c, p in procs:
            o, e = p.communicate(timeout=1800)
            if p.returncode != 0:
                runner.err("selftest %s config %s failed: %s" % (prop, c, e[-500:]))
                ok = False
                outs.append(None)
            else:
                outs.append(json.loads(o.strip().splitlines()[-1]))
        base = outs[0]
        mism = 0
        for c, o in zip(configs[1:], outs[1:]):
            if o is None or base is None:
                continue
            if o != base:
                bad = [(a, b) for a, b in zip(base, o) if a != b]
                mism += len(bad) or 1
                runner.err("DETERMINISM MISMATCH %s: config (workers=%d, hashseed=%d) vs "
                           "(1, 0): %d differing runs, first %s"
                           % (prop, c[0], c[1], len(bad), bad[:1]))
                ok = False
        n_runs = len(base) if base else 0
        report[prop] = {"runs": n_runs, "executions": n_runs * len(configs),
                        "mismatches": mism,
                        "violations_seen": sum(1 for d in (base or []) if d[2] != "ok")}
        runner.out("selftest determinism %s: %d runs x %d configurations (workers/hashseed "
                   "%s), %d digest mismatches" % (prop, n_runs, len(configs), configs, mism))
    ev = {"kind": "determinism-selftest", "seeds_per_property": n_seeds,
          "configurations": [{"workers": w, "harness_PYTHONHASHSEED": h} for w, h in configs],
          "properties": report, "ok": ok, "wall_s": round(time.time() - t0, 1),
          "tree": common.tree_fingerprint()}
    os.makedirs(runner.EVIDENCE_DIR, exist_ok=True)
    with open(os.path.join(common.VERIF_DIR, "selftest_determinism.json"), "w") as f:
        json.dump(ev, f, indent=1, sort_keys=True)
    return 0 if ok else 2
