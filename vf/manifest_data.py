"""Source of MANIFEST.json (see tools/gen_manifest.py)."""

NOTES = ("All checks run the real pydsol.core from /repo/src (or $VERIF_REPO_SRC) "
         "under /verif/vf; exit 0 = held on everything explored (KNOWN-FINDING lines "
         "allowed), 1 = VIOLATION with replay file, 2 = harness error. "
         "VERIF_SEED selects the base seed; budgets are run counts.")

NOT_APPLICABLE = [
    {"property_id": "C15", "reason": "goodness of fit of samplers against their densities and cdf/inverse-cdf round trips are statistical/numerical statements about pure functions: no schedule, clock, fault, interleaving or history exists for a simulator to control; Monte-Carlo testing or quadrature would be a different technique"},
    {"property_id": "C16", "reason": "a statement about a finite table (41x41 quantity type pairs) and pure value arithmetic; deciding it is exhaustive enumeration of a bounded space, not seeded simulation of schedules or faults"},
    {"property_id": "C17", "reason": "a pure finite table (41 classes x 838 declared units, __all__): enumeration, no behaviour over time, nothing to schedule or fault (Duration is exercised as a simulator clock type in C02/C03)"},
]

PENDING_REASON = "no check registered in this commit yet (planned, DESIGN.md §9); not claimed"

CHECKS = [
    {"property_id": "C01", "level": "exploration", "design_ref": "DESIGN.md §4.1",
     "technique": "deterministic simulation (history + reference-model idiom, scheduler idle): seeded operation histories over EventListHeap checked op by op against a sorted-list reference model and by replay-and-drain",
     "text": "Seeded search over histories of add / re-add / remove-by-rank / remove-absent / pop / peek / contains / size / clear on tie-heavy int, float, mixed and Duration times; every return value and, after every mutating operation, the complete drain order of a replayed copy are compared with a sorted-list reference; comparison operators are checked against the key order. The same list is also driven through cancel_event inside every C02 simulator run. Sampling, not proof.",
     "note": "no scheduler, clock or second party exists in this property (said plainly in DESIGN §0); NaN times excluded; histories <= 60 ops"},
    {"property_id": "C02", "level": "exploration", "design_ref": "DESIGN.md §4.2",
     "technique": "deterministic simulation: generated model programs on the real simulator/run thread under a seeded baton scheduler, trace equality against the RefDEVS reference interpreter",
     "text": "Seeded search over generated model programs (schedule/cancel/illegal requests, ties, three clock types) executed by the real simulator with its real run thread under the deterministic scheduler; every executed trace, request outcome and the final clock are compared exactly with an executable reference interpreter. Sampling, not proof: a clean batch is evidence over the explored programs and schedules.",
     "note": "trusts RefDEVS as the intended semantics; dyadic time grid; priorities 1..10; pre-emption at line granularity of simulator.py/pubsub.py"},
    {"property_id": "C03", "level": "exploration", "design_ref": "DESIGN.md §4.3",
     "technique": "deterministic simulation: seeded segmentation schedules (bounded runs, steps, pauses) of generated programs on the real simulator, lock-step with RefDEVS and equality with the uninterrupted run",
     "text": "Seeded search over segmentations of a replication into run_up_to / run_up_to_including / step / pause pieces with cut points drawn relative to the reference's pending event times; after every piece state, clock and executed prefix are compared with the reference, and the concatenated trace and final clock with the uninterrupted run; no handler may run beyond the replication end.",
     "note": "exclusive bounds only before the end; bounds outside [clock,end] and steps with nothing to execute may be refused or clamped (DESIGN §4.3 relaxations)"},
    {"property_id": "C04", "level": "exploration", "design_ref": "DESIGN.md §4.4",
     "technique": "deterministic simulation with fault injection: seeded pre-emption of the real run thread at line granularity (PCT-style and site-biased), virtual wall clock, oversleep, commands injected from handlers and listeners; lifecycle reference FSM, stream grammar and exactly-once oracles; plus enumerated command sequences of length <= 4 at quiescence",
     "text": "Two layers. (a) every command sequence of length <= 4 over the 8-command alphabet on a fixed program plus seeded random sequences of length <= 12, each command settled, compared in lock-step with the lifecycle reference (outcome, refused-changes-nothing, notifies-nobody, state, clock, run-thread liveness, stream grammar). (b) unsettled scripts, commands from handlers and listeners, under seeded interleavings of caller and run thread; judged by stream grammar, quiescent-state invariants, consequences of accepted commands, after-end behaviour and exactly-once trace after a drain. Open findings H1/H2 are matched by objective history predicates. Sampling of schedules, not proof.",
     "note": "one caller thread; line-granularity pre-emption; grace-period expiry (1 s loops) is by design and not judged; see known_findings.jsonl"},
    {"property_id": "C05", "level": "fault_enumeration", "design_ref": "DESIGN.md §4.5",
     "technique": "deterministic simulation with fault injection: handler_raise faults enumerated over every executed event x 3 error strategies x 3 run modes for small generated programs, random multi-fault plans for larger ones; oracle RefDEVS with the same fault plan",
     "text": "For every generated program with <= 12 executed events each single executed handler is made to fail once (rotating exception class and position inside the handler) under LOG_AND_CONTINUE, WARN_AND_CONTINUE and WARN_AND_PAUSE, driven by start, bounded runs and steps; larger programs get random plans of 1-3 faults. Trace, state and clock after every command, the resumed run, the exception class escaping step() and the notification stream are compared with the reference executing the same plan.",
     "note": "WARN_AND_END / WARN_AND_EXIT and failing listeners are out of scope per the statement; enumeration is complete per generated program, programs themselves are sampled"},
    {"property_id": "C06", "level": "exploration", "design_ref": "DESIGN.md §4.6",
     "technique": "deterministic simulation: prior histories (incl. pause by injected handler fault) then re-initialise = restart; differential oracle against a fresh simulator+model, lock-step with RefDEVS",
     "text": "Seeded search over prior histories of a simulator (never started, stepped, paused, bounded run, ended, paused by an injected fault, refused start, initialize from a handler) followed by a second initialize of the same model object; trace, draws, request outcomes, notification stream, every statistics getter and the final clock of the second replication must equal a brand-new simulator and model running that replication.",
     "note": "re-initialisation issued at quiescence; models create Sim statistics and seeded streams in construct_model as documented"},
    {"property_id": "C08", "level": "exploration", "design_ref": "DESIGN.md §4.8",
     "technique": "deterministic simulation (history + reference-model idiom, scheduler idle): seeded re-entrant subscribe/unsubscribe/fire histories with listener scripts, delivery-log equality against a subscription reference model",
     "text": "Seeded search over histories of add/remove/remove_all (four forms)/fire/fire_timed with listeners that re-enter the producer from inside notify (membership changes and nested firing to depth 3); the global delivery log and has_listeners are compared with a snapshot-at-fire reference model; metadata declarations are probed with matching and non-matching payloads; timed events must carry their timestamp.",
     "note": "single-threaded: re-entrancy is the interleaving; None payload values and NoneType metadata not generated"},
    {"property_id": "C11", "level": "exploration", "design_ref": "DESIGN.md §4.10",
     "technique": "deterministic simulation: generated observation schedules around warm-up/end on the real simulator, RefDEVS decides which observations fall after the warm-up event, bit-identical differential against ordinary statistics; probe listener checks published values",
     "text": "Seeded search over model programs whose handlers observe into the four simulation statistics types (direct and via data events) with ties against the warm-up event, warm-up in {0, mid, =end, >end}, pauses/steps/bounded runs; at END_REPLICATION every getter must be bit-identical to the ordinary statistic fed the post-warm-up observations (persistent: closed at the end time); statistics are retrievable from the model by key; every published value equals the getter at that moment.",
     "note": "float and int clocks only; same-algorithm differential"},
]
