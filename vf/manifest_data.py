"""Source of MANIFEST.json (see tools/gen_manifest.py)."""

NOTES = ("All checks run the real pydsol.core from /repo/src (or $VERIF_REPO_SRC) "
         "under /verif/vf; exit 0 = held on everything explored (KNOWN-FINDING lines "
         "allowed), 1 = VIOLATION with replay file, 2 = harness error. "
         "VERIF_SEED selects the base seed; budgets are run counts.")

NOT_APPLICABLE = [
    {"property_id": "C15", "reason": "goodness of fit of samplers against their densities and cdf/inverse-cdf round trips are statistical/numerical statements about pure functions: no schedule, clock, fault, interleaving or history exists for a simulator to control; Monte-Carlo testing or quadrature would be a different technique"},
    {"property_id": "C16", "reason": "a statement about a finite table (41x41 quantity type pairs) and pure value arithmetic; deciding it is exhaustive enumeration of a bounded space, not seeded simulation of schedules or faults"},
    {"property_id": "C17", "reason": "a pure finite table (41 classes x 838 declared units, __all__): enumeration, no behaviour over time, nothing to schedule or fault (Duration is exercised as a simulator clock type in C02/C03)"},
]

PENDING_REASON = "no check registered in this commit yet (planned, DESIGN.md §9); not claimed"

CHECKS = [
    {"property_id": "C01", "level": "exploration", "design_ref": "DESIGN.md §4.1",
     "technique": "deterministic simulation (history + reference-model idiom, scheduler idle): seeded operation histories over EventListHeap checked op by op against a sorted-list reference model and by replay-and-drain",
     "text": "Seeded search over histories of add / re-add / remove-by-rank / remove-absent / pop / peek / contains / size / clear on tie-heavy int, float, mixed and Duration times; every return value and, after every mutating operation, the complete drain order of a replayed copy are compared with a sorted-list reference; comparison operators are checked against the key order. The same list is also driven through cancel_event inside every C02 simulator run. Sampling, not proof.",
     "note": "no scheduler, clock or second party exists in this property (said plainly in DESIGN §0); NaN times excluded; histories <= 60 ops"},
    {"property_id": "C02", "level": "exploration", "design_ref": "DESIGN.md §4.2",
     "technique": "deterministic simulation: generated model programs on the real simulator/run thread under a seeded baton scheduler, trace equality against the RefDEVS reference interpreter",
     "text": "Seeded search over generated model programs (schedule/cancel/illegal requests, ties, three clock types) executed by the real simulator with its real run thread under the deterministic scheduler; every executed trace, request outcome and the final clock are compared exactly with an executable reference interpreter. Sampling, not proof: a clean batch is evidence over the explored programs and schedules.",
     "note": "trusts RefDEVS as the intended semantics; dyadic time grid; priorities 1..10; pre-emption at line granularity of simulator.py/pubsub.py"},
    {"property_id": "C03", "level": "exploration", "design_ref": "DESIGN.md §4.3",
     "technique": "deterministic simulation: seeded segmentation schedules (bounded runs, steps, pauses) of generated programs on the real simulator, lock-step with RefDEVS and equality with the uninterrupted run",
     "text": "Seeded search over segmentations of a replication into run_up_to / run_up_to_including / step / pause pieces with cut points drawn relative to the reference's pending event times; after every piece state, clock and executed prefix are compared with the reference, and the concatenated trace and final clock with the uninterrupted run; no handler may run beyond the replication end.",
     "note": "exclusive bounds only before the end; bounds outside [clock,end] and steps with nothing to execute may be refused or clamped (DESIGN §4.3 relaxations)"},
    {"property_id": "C04", "level": "exploration", "design_ref": "DESIGN.md §4.4",
     "technique": "deterministic simulation with fault injection: seeded pre-emption of the real run thread at line granularity (PCT-style and site-biased), virtual wall clock, oversleep, commands injected from handlers and listeners; lifecycle reference FSM, stream grammar and exactly-once oracles; plus enumerated command sequences of length <= 4 at quiescence",
     "text": "Two layers. (a) every command sequence of length <= 4 over the 8-command alphabet on a fixed program plus seeded random sequences of length <= 12, each command settled, compared in lock-step with the lifecycle reference (outcome, refused-changes-nothing, notifies-nobody, state, clock, run-thread liveness, stream grammar). (b) unsettled scripts, commands from handlers and listeners, under seeded interleavings of caller and run thread; judged by stream grammar, quiescent-state invariants, consequences of accepted commands, after-end behaviour and exactly-once trace after a drain. Open findings H1/H2 are matched by objective history predicates. Sampling of schedules, not proof.",
     "note": "one caller thread; line-granularity pre-emption; grace-period expiry (1 s loops) is by design and not judged; see known_findings.jsonl"},
    {"property_id": "C05", "level": "fault_enumeration", "design_ref": "DESIGN.md §4.5",
     "technique": "deterministic simulation with fault injection: handler_raise faults enumerated over every executed event x 3 error strategies x 3 run modes for small generated programs, random multi-fault plans for larger ones; oracle RefDEVS with the same fault plan",
     "text": "For every generated program with <= 12 executed events each single executed handler is made to fail once (rotating exception class and position inside the handler) under LOG_AND_CONTINUE, WARN_AND_CONTINUE and WARN_AND_PAUSE, driven by start, bounded runs and steps; larger programs get random plans of 1-3 faults. Trace, state and clock after every command, the resumed run, the exception class escaping step() and the notification stream are compared with the reference executing the same plan.",
     "note": "WARN_AND_END / WARN_AND_EXIT and failing listeners are out of scope per the statement; enumeration is complete per generated program, programs themselves are sampled"},
    {"property_id": "C06", "level": "exploration", "design_ref": "DESIGN.md §4.6",
     "technique": "deterministic simulation: prior histories (incl. pause by injected handler fault) then re-initialise = restart; differential oracle against a fresh simulator+model, lock-step with RefDEVS",
     "text": "Seeded search over prior histories of a simulator (never started, stepped, paused, bounded run, ended, paused by an injected fault, refused start, initialize from a handler) followed by a second initialize of the same model object; trace, draws, request outcomes, notification stream, every statistics getter and the final clock of the second replication must equal a brand-new simulator and model running that replication.",
     "note": "re-initialisation issued at quiescence; models create Sim statistics and seeded streams in construct_model as documented"},
    {"property_id": "C08", "level": "exploration", "design_ref": "DESIGN.md §4.8",
     "technique": "deterministic simulation (history + reference-model idiom, scheduler idle): seeded re-entrant subscribe/unsubscribe/fire histories with listener scripts, delivery-log equality against a subscription reference model",
     "text": "Seeded search over histories of add/remove/remove_all (four forms)/fire/fire_timed with listeners that re-enter the producer from inside notify (membership changes and nested firing to depth 3); the global delivery log and has_listeners are compared with a snapshot-at-fire reference model; metadata declarations are probed with matching and non-matching payloads; timed events must carry their timestamp.",
     "note": "single-threaded: re-entrancy is the interleaving; None payload values and NoneType metadata not generated"},
    {"property_id": "C11", "level": "exploration", "design_ref": "DESIGN.md §4.10",
     "technique": "deterministic simulation: generated observation schedules around warm-up/end on the real simulator, RefDEVS decides which observations fall after the warm-up event, bit-identical differential against ordinary statistics; probe listener checks published values",
     "text": "Seeded search over model programs whose handlers observe into the four simulation statistics types (direct and via data events) with ties against the warm-up event, warm-up in {0, mid, =end, >end}, pauses/steps/bounded runs; at END_REPLICATION every getter must be bit-identical to the ordinary statistic fed the post-warm-up observations (persistent: closed at the end time); statistics are retrievable from the model by key; every published value equals the getter at that moment.",
     "note": "float and int clocks only; same-algorithm differential"},
]

CHECKS += [
    {"property_id": "C07", "level": "exploration", "design_ref": "DESIGN.md §4.7",
     "technique": "deterministic simulation turned on the system under test: the same stochastic model programs executed in 10 child interpreters under injected process-level nondeterminism (PYTHONHASHSEED, id counters, heap noise, gc, thread schedule seed, virtual-time speed, pause pattern); digest equality",
     "text": "Seeded batches of stochastic model programs with pub/sub fan-out (listeners with identity hash that draw from shared streams and schedule events) are run in separate interpreter processes, each with a different perturbation of everything a run must not depend on; the digest of executed events, deliveries, draws, all statistics getters and the final state must be identical in all of them, and the simulator notification stream identical among equal pause patterns.",
     "note": "the violation itself is nondeterminism, so a replay file re-runs the same children and may need more than one attempt; float clock"},
    {"property_id": "C09", "level": "exploration", "design_ref": "DESIGN.md §4.9",
     "technique": "deterministic simulation: seeded observation histories with rejected inputs and resets against an exact-rational reference model (single caller: scheduler idle, weak fit, said plainly), plus a two-caller-thread layer under the baton scheduler (one thread registers, one queries, seeded pre-emption at the lines of statistics.py; state after both finished == definition)",
     "text": "Seeded search over observation histories (seven data regimes up to condition number 1e6, n up to 60 quick / 2000 thorough) interleaved with rejected inputs, initialize calls and queries, on plain, event-publishing and subscribed tallies and counters; every getter is compared with exact rational arithmetic within a conditioning-aware bound, NaN exactly where undefined, never raising; rejected input must leave every getter bit-identical; published values equal getters.",
     "note": "no clock in this property; a second caller thread only as a reader; accuracy of skewness/kurtosis only judged while the bound stays below 1e-3"},
    {"property_id": "C10", "level": "exploration", "design_ref": "DESIGN.md §4.9",
     "technique": "deterministic simulation: seeded weighted and timestamped observation histories with timestamp anomalies against an exact-rational reference / exact step-function integral (single caller: scheduler idle, weak fit), plus a two-caller-thread layer under the baton scheduler (writer registers and closes, reader queries, seeded pre-emption at the lines of statistics.py)",
     "text": "Seeded search over weighted and timestamped histories (zero / all-zero weights, repeated timestamps, regressing and NaN timestamps, closing, observations after close, re-initialisation); weighted sum, mean, variances and standard deviations are compared with exact rational values resp. the exact integral of the piecewise-constant signal; rejected calls change nothing; nothing reported changes after closing.",
     "note": "weighted_mean with zero total weight must merely not raise; n/min/max of the timestamp variant not judged"},
    {"property_id": "C12", "level": "exploration", "design_ref": "DESIGN.md §4.11",
     "technique": "deterministic simulation: seeded draw/reseed/reset/save/restore/clone histories over interleaved streams judged by metamorphic relations (single caller: scheduler idle, weak fit); unseeded streams under a virtual wall clock at the module's time seam; extreme uniforms injected at the wrapped-Random seam; two-thread layer (each thread its own stream, baton scheduler with pre-emption at the lines of streams.py, outputs == solo run)",
     "text": "Every draw of a stream that is reseeded, reset and restored is compared bit for bit with a shadow stream that is only ever constructed and drawn from; solo twins check independence from interleaving; ranges are checked for every draw including huge and single-value ranges and for scripted extreme uniforms.",
     "note": "relations, not a re-implementation: a different but valid generator passes"},
    {"property_id": "C13", "level": "exploration", "design_ref": "DESIGN.md §4.12",
     "technique": "deterministic simulation of process-level nondeterminism: seed-update cases evaluated in 6 child interpreters with different PYTHONHASHSEED and both dict listing orders; equality; in-process fallback and refusal atomicity; two threads updating same-named streams at once under the baton scheduler (pre-emption at the lines of streams.py) must get the single-threaded seeds",
     "text": "Batches of (stream names, original seeds, seed tables, replication number, updater) are evaluated in six interpreter processes started with different hash seeds and with the stream dict listed forwards and backwards; seeds and first draws must agree everywhere; unlisted streams use the fallback; refused updates leave the stream untouched.",
     "note": "hash randomisation is the only process-level variation the property names; threads of one process are covered as 'every run'"},
    {"property_id": "C14", "level": "fault_enumeration", "design_ref": "DESIGN.md §4.13",
     "technique": "deterministic simulation with fault injection at the StreamInterface seam: enumerated matrix of extreme-but-legal uniforms x draw positions x parameter regimes for all 19 distributions, plus seeded random parameters and fault plans; support/totality/twin/isolation/re-pointing oracles",
     "text": "A scripted stream returns 0.0, 5e-324, 2**-53, 0.5 or 1-2**-53 at chosen uniform positions (all single placements and all pairs among the first four) for every class and parameter regime; each cell checks that drawing never raises, stays in the support, equals an equally scripted twin, is unaffected by a second instance, never consumes the old stream after re-pointing and drops cached state; constructors reject parameters outside and accept parameters inside the documented domain (open finding D20 for p in {0,1} of Geometric/NegBinomial).",
     "note": "shape-like parameters within [0.1, 100]; overflow for more extreme parameters is not judged"},
    {"property_id": "C18", "level": "exploration", "design_ref": "DESIGN.md §4.14",
     "technique": "deterministic simulation: seeded operation-and-rejection histories over parameter trees against a reference tree with failure atomicity (single caller: scheduler idle, weak fit), plus a two-caller-thread layer under the baton scheduler (one thread constructs bounded parameters, the other sets illegal values through the map; pre-emption at the lines of parameters.py)",
     "text": "Seeded search over histories of constructing (valid, invalid default, duplicate key), setting (valid, wrong type, out of bounds, read-only), getting and removing by dotted key and the model-level set/get round trip on trees of all eight parameter classes; after every operation the whole real tree is compared with a reference tree; rejected operations change nothing.",
     "note": "bool never offered to int/float parameters; absent-key removal not generated"},
]
CHECKS.sort(key=lambda c: c["property_id"])
