"""Source of MANIFEST.json (see tools/gen_manifest.py)."""

NOTES = ("All checks run the real pydsol.core from /repo/src (or $VERIF_REPO_SRC) "
         "under /verif/vf; exit 0 = held on everything explored (KNOWN-FINDING lines "
         "allowed), 1 = VIOLATION with replay file, 2 = harness error. "
         "VERIF_SEED selects the base seed; budgets are run counts.")

NOT_APPLICABLE = [
    {"property_id": "C15", "reason": "goodness of fit of samplers against their densities and cdf/inverse-cdf round trips are statistical/numerical statements about pure functions: no schedule, clock, fault, interleaving or history exists for a simulator to control; Monte-Carlo testing or quadrature would be a different technique"},
    {"property_id": "C16", "reason": "a statement about a finite table (41x41 quantity type pairs) and pure value arithmetic; deciding it is exhaustive enumeration of a bounded space, not seeded simulation of schedules or faults"},
    {"property_id": "C17", "reason": "a pure finite table (41 classes x 838 declared units, __all__): enumeration, no behaviour over time, nothing to schedule or fault (Duration is exercised as a simulator clock type in C02/C03)"},
]

CHECKS = [
    {"property_id": "C02", "level": "exploration", "design_ref": "DESIGN.md §4.2",
     "technique": "deterministic simulation: generated model programs on the real simulator/run thread under a seeded baton scheduler, trace equality against the RefDEVS reference interpreter",
     "text": "Seeded search over generated model programs (schedule/cancel/illegal requests, ties, three clock types) executed by the real simulator with its real run thread under the deterministic scheduler; every executed trace, request outcome and the final clock are compared exactly with an executable reference interpreter. Sampling, not proof: a clean batch is evidence over the explored programs and schedules.",
     "note": "trusts RefDEVS (70 lines) as the intended semantics; dyadic time grid; priorities 1..10; pre-emption at line granularity of simulator.py/pubsub.py"},
]
