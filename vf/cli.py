"""Command line: run <Cxx> --tier quick|thorough | replay <file> | selftest"""
import argparse
import os
import sys

from vf import common


def main(argv=None):
    ap = argparse.ArgumentParser(prog="check")
    sub = ap.add_subparsers(dest="cmd", required=True)
    r = sub.add_parser("run")
    r.add_argument("prop")
    r.add_argument("--tier", default=os.environ.get("VERIF_TIER", "quick"),
                   choices=["quick", "thorough"])
    r.add_argument("--runs", type=int, default=None)
    r.add_argument("--workers", type=int, default=None)
    r.add_argument("--wall-cap", type=float, default=None)
    r.add_argument("--no-evidence", action="store_true")
    r.add_argument("--first-index", type=int, default=0)
    r.add_argument("--no-optimized-pass", action="store_true")
    p = sub.add_parser("replay")
    p.add_argument("path")
    sub.add_parser("setup")
    dg = sub.add_parser("digests")
    dg.add_argument("prop")
    dg.add_argument("--n", type=int, default=100)
    dg.add_argument("--workers", type=int, default=4)
    dg.add_argument("--offset", type=int, default=0)
    sh = sub.add_parser("show")
    sh.add_argument("prop")
    sh.add_argument("index", type=int)
    sh.add_argument("--tier", default="quick")
    s = sub.add_parser("selftest")
    s.add_argument("--seeds", type=int, default=200)
    s.add_argument("--props", default="")
    args = ap.parse_args(argv)
    seed = int(os.environ.get("VERIF_SEED", "0") or 0)
    if args.cmd == "run":
        from vf import runner
        return runner.run_check(args.prop, args.tier, seed, runs=args.runs,
                                workers=args.workers, wall_cap=args.wall_cap,
                                write_evidence=not args.no_evidence,
                                first_index=args.first_index,
                                optimized_pass=not args.no_optimized_pass)
    if args.cmd == "replay":
        from vf import runner
        import json as _json
        import subprocess as _sp
        try:
            flags = _json.load(open(args.path)).get("python_flags") or []
        except Exception:
            flags = []
        if "-O" in flags and not sys.flags.optimize:
            # found under an optimised interpreter: replay under the same flags
            p = _sp.run([common.PYTHON, "-O", "-m", "vf.cli", "replay", args.path],
                        cwd=common.VERIF_DIR)
            return p.returncode
        rep, res = runner.replay_file(args.path)
        if res["status"] == "violation" and not res.get("finding"):
            return 1
        if res["status"] == "harness":
            return 2
        return 0
    if args.cmd == "show":
        import json
        from vf import runner, simrun_quiet
        mod = runner.load_module(args.prop)
        sd = common.derive_seed(seed, args.prop, args.index)
        case = mod.generate(sd, args.tier, args.index)
        print(json.dumps(case))
        so = sys.stdout
        simrun_quiet.quiet()
        if hasattr(mod, "init_worker"):
            mod.init_worker()
        res = mod.execute(case)
        sys.stdout = so
        res.pop("final_case", None)
        print(json.dumps(res, default=str, indent=1)[:3000])
        return 0
    if args.cmd == "digests":
        from vf import selftest
        return selftest.cli_digests(args.prop, args.n, args.workers, args.offset)
    if args.cmd == "setup":
        from vf import common as c
        src = c.use_repo()
        import pydsol.core.simulator as m
        for d in ("evidence", "replays"):
            os.makedirs(os.path.join(c.VERIF_DIR, d), exist_ok=True)
        print("setup ok: python %s, pydsol from %s (tree %s)"
              % (sys.version.split()[0], os.path.dirname(m.__file__),
                 c.tree_fingerprint()[:12]))
        return 0
    if args.cmd == "selftest":
        from vf import selftest
        return selftest.main(args.seeds, [x for x in args.props.split(",") if x])
    return 2


if __name__ == "__main__":
    try:
        rc = main()
    except SystemExit:
        raise
    except BaseException:
        import traceback
        traceback.print_exc(file=sys.__stderr__)
        rc = 2
    sys.stdout.flush()
    os._exit(rc if isinstance(rc, int) else 2)
