"""Two caller threads sharing library objects, under the baton scheduler.

For the modules that have no thread of their own (statistics, streams): one
thread (the writer) mutates, the other (the driver) reads or mutates too, with
seeded pre-emption at the source lines of the target module.  What either
thread sees *during* the overlap is not judged; the state after both have
finished is compared with the sequential definition."""
import threading

from vf import common, detsim


def install(module):
    """Make the lines of `module` pre-emption points (once per process)."""
    detsim.install([module], [module.__file__])


def run_two(sched, writer, reader, max_steps=400000):
    """Run writer() on a new thread and reader() on the calling thread under a
    seeded schedule {"seed", "p", "d"[, "opcodes"]}.  Returns (det, errors)."""
    rng = common.rng_for(sched["seed"], "schedule")
    det = detsim.Sim(detsim.SRandom(rng, sched.get("p", 0.05), sched.get("d", 3)),
                     step_cost=0.0, max_steps=max_steps)
    errors = []

    def guarded(fn, who):
        def run():
            try:
                fn()
            except detsim.DetsimAbort:
                raise
            except BaseException as e:         # noqa: BLE001 - reported by the check
                errors.append((who, type(e).__name__, str(e)[:200]))
        return run

    detsim.begin(det)
    try:
        t = threading.Thread(target=guarded(writer, "writer"), name="writer")
        t.start()
        guarded(reader, "reader")()
        det.settle()
    finally:
        detsim.end(det)
    return det, errors
