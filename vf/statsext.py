"""Extension of the program runner: simulation statistics, data-event fan-out
and seeded streams created in construct_model (as the docs instruct)."""
import math

from vf import common

common.use_repo()
from pydsol.core.interfaces import StatEvents, ReplicationInterface  # noqa: E402
from pydsol.core.pubsub import EventType, EventProducer, EventListener, TimedEvent  # noqa: E402
from pydsol.core.statistics import (SimCounter, SimTally, SimWeightedTally,  # noqa: E402
                                    SimPersistent, Counter, Tally, WeightedTally,
                                    TimestampWeightedTally)
from pydsol.core.streams import MersenneTwister                   # noqa: E402

DATA_TYPES = [EventType("VF_STAT_DATA_%d" % i) for i in range(6)]
DATA_TYPES_B = [EventType("VF_STAT_DATA_B_%d" % i) for i in range(6)]

COUNTER_GETTERS = ["n", "count"]
TALLY_GETTERS = ["n", "min", "max", "sum", "mean", "variance", "stdev", "skewness",
                 "kurtosis", "excess_kurtosis"]
TALLY_GETTERS_UNBIASED = ["variance", "stdev", "skewness", "kurtosis", "excess_kurtosis"]
W_GETTERS = ["n", "min", "max", "weighted_sum", "weighted_mean", "weighted_variance",
             "weighted_stdev"]
W_GETTERS_UNBIASED = ["weighted_variance", "weighted_stdev"]

PUBLISHED = {
    "counter": {"N_EVENT": ("n",), "COUNT_EVENT": ("count",)},
    "tally": {
        "N_EVENT": ("n",), "MIN_EVENT": ("min",), "MAX_EVENT": ("max",),
        "SUM_EVENT": ("sum",), "MEAN_EVENT": ("mean",),
        "POPULATION_STDEV_EVENT": ("stdev",), "POPULATION_VARIANCE_EVENT": ("variance",),
        "POPULATION_SKEWNESS_EVENT": ("skewness",),
        "POPULATION_KURTOSIS_EVENT": ("kurtosis",),
        "POPULATION_EXCESS_K_EVENT": ("excess_kurtosis",),
        "SAMPLE_STDEV_EVENT": ("stdev", False), "SAMPLE_VARIANCE_EVENT": ("variance", False),
        "SAMPLE_SKEWNESS_EVENT": ("skewness", False),
        "SAMPLE_KURTOSIS_EVENT": ("kurtosis", False),
        "SAMPLE_EXCESS_K_EVENT": ("excess_kurtosis", False)},
    "wtally": {
        "N_EVENT": ("n",), "MIN_EVENT": ("min",), "MAX_EVENT": ("max",),
        "WEIGHTED_SUM_EVENT": ("weighted_sum",), "WEIGHTED_MEAN_EVENT": ("weighted_mean",),
        "WEIGHTED_POPULATION_STDEV_EVENT": ("weighted_stdev",),
        "WEIGHTED_POPULATION_VARIANCE_EVENT": ("weighted_variance",),
        "WEIGHTED_SAMPLE_STDEV_EVENT": ("weighted_stdev", False),
        "WEIGHTED_SAMPLE_VARIANCE_EVENT": ("weighted_variance", False)},
}
PUBLISHED["persistent"] = PUBLISHED["wtally"]


def getter_names(kind):
    if kind == "counter":
        return [(g,) for g in COUNTER_GETTERS]
    if kind == "tally":
        return [(g,) for g in TALLY_GETTERS] + [(g, False) for g in TALLY_GETTERS_UNBIASED]
    return [(g,) for g in W_GETTERS] + [(g, False) for g in W_GETTERS_UNBIASED]


def read_all(stat, kind):
    """Every getter as exact text (hex floats); an exception is recorded as
    its class name."""
    out = {}
    for g in getter_names(kind):
        name = g[0] + ("" if len(g) == 1 else "(unbiased)")
        try:
            v = getattr(stat, g[0])(*g[1:])
            out[name] = common.fhex(v) if isinstance(v, float) else v
        except Exception as e:
            out[name] = "raised:" + type(e).__name__
    if kind == "tally":
        try:
            ci = stat.confidence_interval(0.05)
            out["confidence_interval(0.05)"] = [common.fhex(x) for x in ci]
        except Exception as e:
            out["confidence_interval(0.05)"] = "raised:" + type(e).__name__
    return out


def same(a, b):
    if isinstance(a, float) and isinstance(b, float):
        return a == b or (math.isnan(a) and math.isnan(b))
    return a == b


class Probe(EventListener):
    """Subscribed to every statistics event of one statistic: the published
    value must equal the getter at the moment of notification."""

    def __init__(self, ext, idx, kind, stat):
        self.ext = ext
        self.idx = idx
        self.kind = kind
        self.stat = stat
        self.names = {}
        self.last = {}
        self.react = None
        self.react_seen = 0
        for n, g in PUBLISHED[kind].items():
            self.names[id(getattr(StatEvents, n))] = (n, g)

    def notify(self, event):
        ent = self.names.get(id(event.event_type))
        self.ext.published += 1
        if ent is not None:
            n, g = ent
            try:
                now = getattr(self.stat, g[0])(*g[1:])
            except Exception as e:
                now = "raised:" + type(e).__name__
            self.last[n] = (event.content, g)
            if not same(event.content, now):
                self.ext.mismatches.append(
                    "statistic #%d (%s) published %s = %r but %s() returns %r at that moment"
                    % (self.idx, self.kind, n, event.content, g[0], now))
        if self.react is not None and id(event.event_type) == self.react_type:
            self.react_seen += 1
            if self.react_seen == self.react[1]:
                self.do_react()

    def do_react(self):
        """Change the statistic from inside the notification (once)."""
        st, kind = self.stat, self.kind
        self.ext.reactions += 1
        try:
            if self.react[2] == "initialize":
                st.initialize()
            elif kind == "counter":
                st.register(1)
            elif kind == "tally":
                st.register(1.0)
            elif kind == "wtally":
                st.register(1.0, 1.0)
            else:
                st.register(float(st.simulator.simulator_time), 1.0)
        except Exception as e:
            self.ext.errors.append("re-entrant %s of statistic #%d (%s) from inside a "
                                   "notification raised %s: %s"
                                   % (self.react[2], self.idx, kind, type(e).__name__, e))

    def __eq__(self, o):
        return self is o

    __hash__ = object.__hash__


class QueueProducer(EventProducer):
    """A producer that is also a container (a queue that publishes): falsy while
    it is empty, e.g. during construct_model."""

    def __init__(self):
        super().__init__()
        self.items = []

    def __len__(self):
        return len(self.items)


class StatsExt:
    def __init__(self, case):
        self.case = case
        self.spec = case.get("stats", [])
        self.published = 0
        self.mismatches = []
        self.errors = []
        self.obs_count = 0
        self.reactions = 0

    def on_construct(self, runner, model):
        sim = runner.sim
        if not (self.case.get("long_lived_producer") and getattr(model, "producer", None) is not None):
            # (long_lived_producer: the producer belongs to the model object and
            # survives re-initialisation; the statistics of earlier replications are
            # still subscribed to it, the new ones must be subscribed as well)
            model.producer = QueueProducer() if self.case.get("falsy_producer") else EventProducer()
        if self.case.get("held_list") and not hasattr(model, "_held_list"):
            # the model keeps the event list handle it got the first time (e.g. to
            # guard cancellations with contains()) over all later replications
            model._held_list = sim.eventlist()
        model.stats = []
        for i, sp in enumerate(self.spec):
            kind = sp["kind"]
            cls = {"counter": SimCounter, "tally": SimTally, "wtally": SimWeightedTally,
                   "persistent": SimPersistent}[kind]
            via = sp.get("via")
            if via == "event_ctor":
                # producer and event type given to the constructor, a second
                # type added later (the docs allow several listen_to calls)
                st = cls("k%d" % i, "stat %d" % i, sim, producer=model.producer,
                         event_type=DATA_TYPES[i])
                st.listen_to(model.producer, DATA_TYPES_B[i])
            else:
                st = cls("k%d" % i, "stat %d" % i, sim)
            if via in ("event", "event2"):
                st.listen_to(model.producer, DATA_TYPES[i])
            if via == "event2":
                st.listen_to(model.producer, DATA_TYPES_B[i])
            model.stats.append(st)
            if self.case.get("probe", False):
                pr = Probe(self, i, kind, st)
                st._vf_probe = pr
                for n in PUBLISHED[kind]:
                    st.add_listener(getattr(StatEvents, n), pr)
                if sp.get("react"):
                    pr.react = sp["react"]
                    et = getattr(StatEvents, sp["react"][0])
                    pr.react_type = id(et)
                    st.add_listener(et, pr)
        if self.case.get("plain_stats"):
            # ordinary (non-simulation) statistics created in construct_model and
            # registered by hand, as the docs allow
            model.plain = []
            for j, cls in enumerate((Tally, Counter, WeightedTally)[:self.case["plain_stats"]]):
                ps = cls("plain%d" % j)
                model.add_output_statistic("plain%d" % j, ps)
                model.plain.append(ps)
        io = runner.prog.get("init_obs")
        if io:
            # the model re-registers a current value (queue length, jobs in system) into a
            # statistic whenever that statistic announces that it was initialised, i.e.
            # right after the warm-up reset: the observation counts
            ext = self
            model._at_init = []
            for i, v, w in io:
                k = i % len(self.spec)

                class _AtInit(EventListener):
                    def notify(l, event, _k=k, _v=v, _w=w):
                        ext.observe(runner, model, _k, _v, _w)
                li = _AtInit()
                model._at_init.append(li)
                model.stats[k].add_listener(StatEvents.INITIALIZED_EVENT, li)
        wo = runner.prog.get("warmup_obs")
        if wo:
            # the model subscribes to the warm-up notification AFTER creating its
            # statistics and registers observations from inside notify (e.g. to
            # re-seed a persistent after the reset): they count, the reset came first
            ext = self

            class _AtWarmup(EventListener):
                def notify(l, event):
                    for i, v, w in wo:
                        ext.observe(runner, model, i % len(ext.spec), v, w)
            model._at_warmup = _AtWarmup()
            sim.add_listener(ReplicationInterface.WARMUP_EVENT, model._at_warmup)
        model.streams = [MersenneTwister(s) for s in self.case.get("stream_seeds", [])]

    def perform(self, runner, model, owner, idx, a):
        kind = a[0]
        if kind == "obs":
            self.observe(runner, model, a[1], a[2], a[3] if len(a) > 3 else None)
        elif kind == "obsdraw":
            # observation drawn from a seeded stream created in construct_model
            st = model.streams[a[2] % len(model.streams)]
            how = a[3] if len(a) > 3 else "float"
            if how == "int":
                v = st.next_int(0, 9)
            elif how == "bool":
                v = 1 if st.next_bool() else 0
            else:
                v = st.next_float()
            runner.hist.H.append(("draw", owner, idx, common.fhex(v)))
            if hasattr(model, "_held_list"):
                # what the kept handle says about the pending events
                runner.hist.H.append(("draw", owner, idx, "held-list size %d, empty %s"
                                      % (model._held_list.size(), model._held_list.is_empty())))
            self.observe(runner, model, a[1], v, st.next_float())
        elif kind == "noop":
            pass
        else:
            raise ValueError("unknown action %r" % (a,))

    def observe(self, runner, model, i, value, weight):
        sp = self.spec[i]
        st = model.stats[i]
        sim = runner.sim
        kind = sp["kind"]
        self.obs_count += 1
        try:
            if sp.get("via") in ("event", "event2", "event_ctor"):
                et = DATA_TYPES[i]
                if sp.get("via") != "event" and self.obs_count % 2 == 0:
                    et = DATA_TYPES_B[i]       # alternate between the two types
                if kind == "counter":
                    model.producer.fire(et, int(value))
                elif kind == "tally":
                    model.producer.fire(et, float(value))
                elif kind == "wtally":
                    model.producer.fire(et, (float(weight), float(value)))
                else:
                    model.producer.fire_timed(sim.simulator_time, et, float(value))
            else:
                if kind == "counter":
                    st.register(int(value))
                elif kind == "tally":
                    st.register(float(value))
                elif kind == "wtally":
                    st.register(float(weight), float(value))
                else:
                    st.register(float(sim.simulator_time), float(value))
        except Exception as e:
            self.errors.append("observation %r into statistic #%d (%s) raised %s: %s"
                               % (value, i, kind, type(e).__name__, e))
            raise
        # what was published for this observation must describe the state that
        # includes it (not the state before the update)
        pr = getattr(st, "_vf_probe", None)
        if pr is not None and pr.react is not None:
            pr.last = {}
        elif pr is not None:
            for n, (content, g) in pr.last.items():
                try:
                    now = getattr(st, g[0])(*g[1:])
                except Exception:
                    continue
                if not same(content, now):
                    self.mismatches.append(
                        "statistic #%d (%s): the last %s published for observation %r is "
                        "%r but %s() returns %r once the observation is registered"
                        % (i, kind, n, value, content, g[0], now))
                    break
            pr.last = {}


def shadow(kind, obs, end_time=None):
    """The ordinary statistic fed the given observations
    [(value, weight, time)], closed at end_time for persistents."""
    if kind == "counter":
        s = Counter("shadow")
        for v, w, t in obs:
            s.register(int(v))
    elif kind == "tally":
        s = Tally("shadow")
        for v, w, t in obs:
            s.register(float(v))
    elif kind == "wtally":
        s = WeightedTally("shadow")
        for v, w, t in obs:
            s.register(float(w), float(v))
    else:
        s = TimestampWeightedTally("shadow")
        for v, w, t in obs:
            s.register(float(t), float(v))
        if end_time is not None:
            s.end_observations(float(end_time))
    return s
