"""Lock-step evaluation of a sequential (settled) command script: the real
simulator's recorded history against RefDEVS.  Shared by C02–C06 and C11."""
from vf.models import refdevs
from vf.models.refdevs import RefDEVS, OK, REFUSED

START_LIKE = ("start", "step", "run_up_to", "run_up_to_incl")


def make_ref(case):
    prog = dict(case["program"])
    prog["strategy"] = case.get("strategy", 3)
    prog["_pause_at"] = case.get("pause_at", ())
    prog["_n_stats"] = len(case.get("stats", ())) or 1
    return RefDEVS(prog)


def ref_apply(ref, cmd):
    """Apply a driver command to the reference at quiescence.  Returns the
    expected outcome: 'ok', 'DSOLError' or None when the statement leaves the
    outcome open (bound outside [clock, end])."""
    name = cmd[0]
    if name in ("initialize", "initialize_b"):
        ref.initialize(cmd[1] if len(cmd) > 1 else None)
        return "ok"
    if name == "initialize_failing":
        # construct_model raises: outcome and state are left open by the
        # statement; the script always continues with a plain initialize
        return "FAILS"
    if name == "cleanup":
        ref.cleanup()
        return "ok"
    if name == "stop":
        return "DSOLError"
    if name == "end_replication":
        ref.end_replication()
        return "ok"
    if name == "start":
        return "ok" if ref.run(ref.end, True) == OK else "DSOLError"
    if name == "step":
        if ref.can_start() and ref.step_at_boundary():
            return None       # nothing may execute; refusing, idling or ending are all fine
        return "ok" if ref.step() == OK else "DSOLError"
    if name in ("run_up_to", "run_up_to_incl"):
        t = cmd[1]
        if not ref.can_start():
            return "DSOLError"
        if t < ref.clock or t > ref.end:
            return None
        return "ok" if ref.run(t, name == "run_up_to_incl") == OK else "DSOLError"
    raise ValueError(cmd)


def split_history(H):
    """Index the history: top-level commands, callback commands, quiet
    points; each with its position in H."""
    top = {}
    callbacks = []
    for pos, h in enumerate(H):
        if h[0] == "cmd":
            i = h[1]
            is_cb = (h[3] == "invoke" and len(h) > 6) or (h[3] == "return" and len(h) > 7)
            d = top.setdefault(i, {"index": i, "name": h[2], "callback": is_cb})
            if h[3] == "invoke":
                d["invoke_pos"] = pos
                d["tid"] = h[4]
                d["before"] = h[5]
                if is_cb:
                    d["where"] = h[6]
                    d["outer"] = h[7]
            else:
                d["return_pos"] = pos
                d["outcome"] = h[5]
                d["after"] = h[6]
    cmds = [top[i] for i in sorted(top)]
    return cmds


def executed(H, upto=None):
    """(time, eid) of handler executions and ('W') warm-up notifications in
    history order."""
    out = []
    for h in (H if upto is None else H[:upto]):
        if h[0] == "exe":
            out.append((h[2], h[1]))
        elif h[0] == "ntf" and h[1] == "WARMUP":
            out.append((h[2], "W"))
    return out


def ref_trace(ref, runner):
    return [(runner.ref_time(t), e) for t, e in ref.trace]


def first_diff(a, b):
    n = min(len(a), len(b))
    for i in range(n):
        if a[i] != b[i]:
            return i
    return n if len(a) != len(b) else None


def describe_trace_diff(got, exp):
    i = first_diff(got, exp)
    if i is None:
        return None
    g = got[i] if i < len(got) else "<nothing>"
    e = exp[i] if i < len(exp) else "<nothing>"
    kind = "trace-mismatch"
    # classify for the message
    gs, es = sorted(map(repr, got)), sorted(map(repr, exp))
    if gs == es:
        what = "reordered"
    elif len(got) > len(exp):
        what = "extra/duplicated execution"
    elif len(got) < len(exp):
        what = "lost execution"
    else:
        what = "different events"
    return kind, "executed trace differs from the reference at position %d " \
        "(%s): simulator ran %s, reference runs %s; simulator trace %s; " \
        "reference trace %s" % (i, what, g, e, got[:i + 3], exp[:i + 3])


def check_requests(H, ref):
    """Outcome of every scheduling / cancel / illegal request, in order."""
    findings = []
    got = [h for h in H if h[0] == "req"]
    exp = ref.requests
    for k in range(min(len(got), len(exp))):
        g, e = got[k], exp[k]
        if (g[1], g[2]) != (e[0], e[1]):
            # the executions diverged; the trace check reports that
            break
        gout, eout = g[3], e[2]
        if eout == "raise":
            continue
        before, after = g[4], g[5]
        if eout == REFUSED:
            if not gout.startswith("refused:"):
                findings.append(("illegal-request-accepted",
                                 "request #%d (%s action %d) must be refused but "
                                 "returned %s (pending events %d -> %d)"
                                 % (k, g[1], g[2], gout, before, after)))
                break
            if before != after:
                findings.append(("refused-request-changed-pending",
                                 "refused request #%d (%s action %d) changed the "
                                 "number of pending events %d -> %d"
                                 % (k, g[1], g[2], before, after)))
                break
        elif eout == OK:
            if gout != "ok":
                findings.append(("legal-request-refused",
                                 "request #%d (%s action %d) is legal but raised %s"
                                 % (k, g[1], g[2], gout)))
                break
            if after != before + 1:
                findings.append(("accepted-request-not-pending",
                                 "accepted request #%d changed the number of "
                                 "pending events %d -> %d" % (k, before, after)))
                break
        elif eout in ("removed", "absent"):
            if gout != eout:
                findings.append(("cancel-outcome",
                                 "cancel #%d (%s action %d): simulator %s (pending "
                                 "%d -> %d), reference %s"
                                 % (k, g[1], g[2], gout, before, after, eout)))
                break
    return findings


def check_clock_monotone(H):
    last = None
    for h in H:
        if h[0] == "exe":
            if last is not None and h[2] < last:
                return [("clock-backwards",
                         "handler of event %s ran at clock %s after a handler "
                         "had run at %s" % (h[1], h[2], last))]
            last = h[2]
        elif h[0] == "cmd" and h[2] in ("initialize", "initialize_b") and h[3] == "return":
            last = None
    return []


def evaluate_sequential(case, runner):
    """Lock-step comparison of a settled script.  Returns (findings, info);
    findings is a list of (check_id, message) in discovery order."""
    H = runner.hist.H
    findings = []
    info = {"accepted": 0, "refused": 0, "unjudged": 0}
    if runner.aborted:
        findings.append(("no-quiescence", "run aborted: %s after %d steps"
                         % (runner.aborted, runner.det.step)))
        return findings, info
    tc = case["program"].get("tc_listener") or ()
    if tc and any(c[0] == "run_up_to" and any(c[1] == T for T, _ in tc)
                  for c in case["commands"]):
        # an exclusive bounded run to exactly a time the TIME_CHANGED subscriber
        # reacts to: whether that time is announced when the run resumes (the
        # clock is already there) is not specified; not judged
        return [], {"invalid": True, "accepted": 0, "refused": 0, "unjudged": 1}
    ref = make_ref(case)
    cmds = split_history(H)
    top = [c for c in cmds if not c["callback"]]
    script = [c for c in case["commands"]
              if c[0] not in ("settle", "poll", "sleep", "poll_stopped", "drain")]
    quiet_after = {}
    # map command index -> following quiet record
    last_cmd = None
    for pos, h in enumerate(H):
        if h[0] == "cmd" and h[3] == "return" and len(h) <= 7:
            last_cmd = h[1]
        elif h[0] == "quiet" and last_cmd is not None:
            quiet_after.setdefault(last_cmd, (pos, h))
    top = top[:len(script)]
    if len(top) != len(script):
        findings.append(("harness", "script has %d commands, history %d"
                         % (len(script), len(top))))
        return findings, info
    for c, cmd in zip(top, script):
        name = cmd[0]
        if name == "end_replication" and not (ref.run_state == "STOPPED"
                                              and ref.rep_state == "STARTED"):
            # outside the generated space (DESIGN §4.4 "not generated"); can
            # only arise while shrinking
            return [], {"invalid": True, "accepted": 0, "refused": 0, "unjudged": 0}
        exp = ref_apply(ref, cmd)
        got = c.get("outcome")
        if exp == "FAILS":
            info["unjudged"] += 1
            continue
        lenient = exp is None
        if lenient:
            info["unjudged"] += 1
            # the statement leaves a bound outside [clock, end] open: refused
            # without change, or clamped
            if got == "DSOLError":
                exp = "DSOLError"
            elif name == "step":
                q = quiet_after.get(c["index"])
                if q is not None and q[1][2] == "ENDED":
                    ref.run(ref.end, True)       # the implementation ended the replication
                else:
                    ref.step()
                exp = "ok"
            else:
                t = cmd[1]
                incl = name == "run_up_to_incl"
                if t < ref.clock:
                    t = ref.clock
                if t > ref.end:
                    t, incl = ref.end, True
                    info["beyond_end"] = True
                ref.run(t, incl)
                exp = "ok"
        if got == "DSOLError" and exp == "ok" and name == "step" \
                and getattr(ref, "last_step_failed", False):
            got = "ok"      # a failing step may also be reported as DSOLError
        if got != exp:
            cid = "command-outcome"
            if got is not None and got.startswith("exc:"):
                cid = "command-raised-non-dsol-error"
            findings.append((cid, "command #%d %s: simulator outcome %s, "
                             "protocol prescribes %s (state before: %s)"
                             % (c["index"], cmd, got, exp, c["before"])))
            break
        if exp == "DSOLError":
            info["refused"] += 1
            if c["before"] != c["after"]:
                findings.append(("refused-command-changed-state",
                                 "refused command #%d %s changed (run_state, "
                                 "replication_state, clock, run_until, inclusive, "
                                 "pending) from %s to %s"
                                 % (c["index"], cmd, c["before"], c["after"])))
                break
            label = "%s#%d" % (name, c["index"])
            n = [h for h in H[c["invoke_pos"]:c["return_pos"]]
                 if h[0] == "ntf" and h[4] == label]
            if n:
                findings.append(("refused-command-notified",
                                 "refused command #%d %s notified subscribers: %s"
                                 % (c["index"], cmd, n[:3])))
                break
        else:
            info["accepted"] += 1
        q = quiet_after.get(c["index"])
        if q is None:
            continue
        qpos, qh = q
        got_state = (qh[2], qh[3], qh[4])
        exp_state = (ref.run_state, ref.rep_state, runner.ref_time(ref.clock))
        if name == "cleanup":
            # the clock after cleanup is not specified
            got_state, exp_state = got_state[:2], exp_state[:2]
        if getattr(ref, "cleaned_by_handler", False):
            # cleanup() issued by a handler of this run: only the replication state
            # is specified afterwards
            got_state, exp_state = got_state[1:2], exp_state[1:2]
        if got_state != exp_state:
            cid = "state-after-command"
            if got_state[:2] == exp_state[:2]:
                cid = "clock-after-command"
            findings.append((cid, "after command #%d %s at quiescence the simulator "
                             "reports (run_state, replication_state, clock) = %s, "
                             "reference %s" % (c["index"], cmd, got_state, exp_state)))
            break
        got_tr = executed(H, qpos)
        exp_tr = ref_trace(ref, runner)
        d = describe_trace_diff(got_tr, exp_tr)
        if d is not None:
            findings.append((d[0], "after command #%d %s: %s" % (c["index"], cmd, d[1])))
            break
        live = qh[-1]
        exp_live = 1 if ref.worker_alive else 0
        if live != exp_live:
            findings.append(("run-thread-liveness",
                             "after command #%d %s: %d live run thread(s), expected %d"
                             % (c["index"], cmd, live, exp_live)))
            break
    findings.extend(check_clock_monotone(H))
    findings.extend(check_requests(H, ref))
    for h in H:
        if h[0] == "nested" and h[3]:
            findings.append(("nested-simulator", "a second simulator run from %s of the first "
                             "one: %s" % ("construct_model" if h[1] is None else
                                          "handler %s" % h[1], h[3])))
            break
    # commands issued from handlers
    cbs = [c for c in cmds if c["callback"]]
    for k, (c, e) in enumerate(zip(cbs, ref.callback_cmds)):
        if c["name"] != e[0]:
            break
        exp = "ok" if e[1] == OK else "DSOLError"
        if c.get("outcome") != exp:
            findings.append(("callback-command-outcome",
                             "command #%d %s issued from %s: outcome %s, protocol "
                             "prescribes %s (state before %s)"
                             % (c["index"], c["name"], c.get("where"),
                                c.get("outcome"), exp, c["before"])))
            break
        if exp == "DSOLError" and c["before"] != c.get("after"):
            findings.append(("refused-command-changed-state",
                             "refused command #%d %s issued from %s changed "
                             "(run_state, replication_state, clock, run_until, "
                             "inclusive, pending) from %s to %s"
                             % (c["index"], c["name"], c.get("where"),
                                c["before"], c.get("after"))))
            break
    info["ref"] = ref
    return findings, info


def replay_form(case, runner):
    """The same case with the PRNG-driven schedule replaced by the decision
    list that was actually taken (None if it already is S0/replay)."""
    sc = case.get("sched") or {}
    if sc.get("kind") not in ("pct", "site") and not sc.get("eager"):
        return None
    c = dict(case)
    s2 = {k: v for k, v in sc.items() if k in ("step_cost_us", "oversleep",
                                                 "seed", "clock_jumps", "opcodes")}
    # (stalls are recorded inside the decision list)
    s2["kind"] = "replay"
    s2["decisions"] = [list(d) for d in runner.det.decisions]
    s2["from"] = sc.get("kind")
    c["sched"] = s2
    return c


def detsim_stats(res, case, r):
    """Uniform reach measurements of a detsim run for the evidence file."""
    cnt = res.setdefault("counters", {})
    sums = res.setdefault("sums", {})
    sets = res.setdefault("sets", {})
    det = r.det
    kind = (case.get("sched") or {}).get("kind", "S0")
    cnt["strategy:" + kind] = cnt.get("strategy:" + kind, 0) + 1
    if (case.get("sched") or {}).get("opcodes"):
        cnt["granularity:bytecode"] = cnt.get("granularity:bytecode", 0) + 1
    for k, v in r.faults.items():
        cnt["fault:" + k] = cnt.get("fault:" + k, 0) + v
    for name, v in (("preempt", det.n_switch), ("timer_fire", det.n_timer_fire),
                    ("stall", det.n_stall), ("clock_jump", det.n_fault_clock_jump),
                    ("eager_poller", det.n_eager)):
        if v:
            cnt["fault:" + name] = cnt.get("fault:" + name, 0) + v
    sums["sim_wall_seconds"] = sums.get("sim_wall_seconds", 0.0) + (det.clock - det.t0)
    sums["yield_points"] = sums.get("yield_points", 0) + det.step
    H = r.hist.H
    if det.sites:
        sets.setdefault("interleavings", []).append(
            hash_sites(det.sites, case.get("commands")))
    st = sets.setdefault("state_tuples", [])
    seen = set(st)
    for h in H:
        if h[0] == "st":
            t = "%s/%s>%s/%s@%s:%s" % (h[4], h[5], h[6], h[7], "run" if h[2] else "caller",
                                        (h[3] or "-").split("#")[0])
            if t not in seen:
                seen.add(t)
                st.append(t)
    return res


def hash_sites(sites, commands):
    from vf import common
    return common.digest8([list(map(list, sites)), commands])
