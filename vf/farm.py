"""A tiny process farm.  Workers are forked from the (single-threaded) master,
receive chunks of run indices over a pipe and send back aggregated results.
A worker that executed a run which could not be unwound cleanly reports,
exits, and is replaced by a fresh one — zombie threads never leak into the
next run.  A worker that dies without a verdict is a harness error."""
import faulthandler
import multiprocessing as mp
import multiprocessing.connection as mpc
import os
import sys
import time
import traceback

_ctx = mp.get_context("fork")


class Agg:
    """What a worker accumulates over a chunk (all picklable)."""

    def __init__(self):
        self.evaluations = 0
        self.counters = {}        # name -> int   (probes, faults, strategies…)
        self.nontrivial = set()   # 64-bit digests of distinct non-trivial cases
        self.failures = []        # dicts: {index, seed, check_id, message, case}
        self.known = []           # same, for runs explained by an open known finding
        self.samples = []         # a few cases as run
        self.sample_classes = set()
        self.sets = {}            # name -> set of small hashables (distinct measures)
        self.sums = {}            # name -> float

    def count(self, name, n=1):
        self.counters[name] = self.counters.get(name, 0) + n

    def add(self, name, x):
        self.sums[name] = self.sums.get(name, 0.0) + x

    def seen(self, name, item):
        self.sets.setdefault(name, set()).add(item)

    def merge(self, o, max_fail=50, max_samples=6, max_set=4000000):
        self.evaluations += o.evaluations
        for k, v in o.counters.items():
            self.counters[k] = self.counters.get(k, 0) + v
        for k, v in o.sums.items():
            self.sums[k] = self.sums.get(k, 0.0) + v
        if len(self.nontrivial) < max_set:
            self.nontrivial |= o.nontrivial
        for k, v in o.sets.items():
            s = self.sets.setdefault(k, set())
            if len(s) < max_set:
                s |= v
        for f in o.failures:
            if len(self.failures) < max_fail:
                self.failures.append(f)
        for f in o.known:
            if len(self.known) < max_fail:
                self.known.append(f)
        for s in o.samples:
            if len(self.samples) < max_samples and s.get("class") not in self.sample_classes:
                self.sample_classes.add(s.get("class"))
                self.samples.append(s)


def _worker_main(conn, run_one, init, chunk_timeout):
    try:
        if init is not None:
            init()
        while True:
            msg = conn.recv()
            if msg[0] == "stop":
                break
            indices = msg[1]
            agg = Agg()
            must_die = False
            done = 0
            faulthandler.dump_traceback_later(chunk_timeout, exit=True,
                                              file=sys.__stderr__)
            for idx in indices:
                keep_going = run_one(idx, agg)
                done += 1
                if keep_going is False:
                    must_die = True
                    break
            faulthandler.cancel_dump_traceback_later()
            conn.send(("done", agg, indices[done:], must_die))
            if must_die:
                break
    except BaseException:
        try:
            conn.send(("error", traceback.format_exc()))
        except Exception:
            pass
    finally:
        try:
            conn.close()
        except Exception:
            pass
        os._exit(0)


class HarnessError(Exception):
    pass


def run_farm(run_one, n_runs, workers=None, init=None, chunk=200,
             wall_cap=None, stop_after_failures=5, chunk_timeout=600,
             progress=None, first_index=0):
    """Execute run_one(index, agg) for index in [first_index, first_index+n_runs).
    run_one returns False when the worker process must be replaced.
    Returns (Agg, completed_runs, capped: bool)."""
    workers = workers or min(16, os.cpu_count() or 1)
    t0 = time.time()
    total = Agg()
    pending = []
    i = first_index
    endi = first_index + n_runs
    while i < endi:
        pending.append(list(range(i, min(endi, i + chunk))))
        i += chunk
    pending.reverse()
    live = {}       # conn -> (process, chunk in flight)
    completed = 0
    capped = False

    def spawn():
        parent, child = _ctx.Pipe()
        p = _ctx.Process(target=_worker_main,
                         args=(child, run_one, init, chunk_timeout))
        p.daemon = True
        p.start()
        child.close()
        return parent, p

    def give(conn, p):
        if pending and not capped and len(total.failures) < stop_after_failures:
            c = pending.pop()
            conn.send(("chunk", c))
            live[conn] = (p, c)
            return True
        try:
            conn.send(("stop",))
        except Exception:
            pass
        return False

    for _ in range(min(workers, len(pending))):
        conn, p = spawn()
        give(conn, p)
    try:
        while live:
            if wall_cap is not None and time.time() - t0 > wall_cap:
                capped = True
            ready = mpc.wait(list(live), timeout=1.0)
            for conn in ready:
                p, c = live.pop(conn)
                try:
                    msg = conn.recv()
                except EOFError:
                    raise HarnessError(
                        "worker %s died without a verdict while running "
                        "indices %s..%s (exit code %s)"
                        % (p.pid, c[0], c[-1], p.exitcode))
                if msg[0] == "error":
                    raise HarnessError("worker exception:\n" + msg[1])
                _, agg, rest, must_die = msg
                total.merge(agg)
                completed += len(c) - len(rest)
                if rest:
                    pending.append(rest)
                if must_die:
                    conn.close()
                    p.join(5)
                    conn, p = spawn()
                if not give(conn, p):
                    conn.close()
            if progress is not None:
                progress(completed, time.time() - t0)
    finally:
        for conn, (p, c) in list(live.items()):
            try:
                p.kill()
            except Exception:
                pass
    if pending and not capped and len(total.failures) < stop_after_failures:
        raise HarnessError("farm ended with work left")
    return total, completed, capped or bool(pending)


def isolated(fn, *args, timeout=120):
    """Run fn(*args) in a forked child and return its (picklable) result.
    Used for candidate evaluation while shrinking: a failing run may leave
    parked threads behind, so every evaluation gets its own process."""
    parent, child = _ctx.Pipe()
    pid = os.fork()
    if pid == 0:
        try:
            parent.close()
            faulthandler.dump_traceback_later(timeout, exit=True,
                                              file=sys.__stderr__)
            try:
                res = ("ok", fn(*args))
            except BaseException:
                res = ("error", traceback.format_exc())
            child.send(res)
            child.close()
        finally:
            os._exit(0)
    child.close()
    try:
        if parent.poll(timeout + 5):
            res = parent.recv()
        else:
            res = ("error", "timeout")
    except EOFError:
        res = ("error", "child died")
    finally:
        parent.close()
        try:
            os.kill(pid, 9)
        except Exception:
            pass
        os.waitpid(pid, 0)
    if res[0] == "error":
        raise HarnessError("isolated evaluation failed:\n" + res[1])
    return res[1]
