"""Child interpreter for C13: evaluates seed-update cases under this
process's hash randomisation and prints one JSON line per batch."""
import json
import sys

from vf import common

common.use_repo()
from pydsol.core.streams import (MersenneTwister, SimpleStreamUpdater,      # noqa: E402
                                 StreamSeedUpdater)


def evaluate(case, reverse):
    names = case["names"]
    order = list(reversed(names)) if reverse else list(names)
    streams = {n: MersenneTwister(case["seeds"][n]) for n in order}
    table = {n: case["table"][n] for n in order if n in case["table"]}
    upd = SimpleStreamUpdater() if case["updater"] == "simple" else StreamSeedUpdater(table)
    out = {}
    try:
        upd.update_seeds(streams, case["r"])
        for n in names:
            st = streams[n]
            out[n] = [st.seed()] + [st.next_float().hex() for _ in range(5)] \
                + [st.next_int(0, 10 ** 6)]
    except Exception as e:
        out = {"raised": type(e).__name__ + ": " + str(e)[:80]}
    return out


def main():
    cases = json.loads(sys.stdin.read())
    res = []
    for c in cases:
        res.append([evaluate(c, False), evaluate(c, True)])
    sys.stdout.write(json.dumps(res))


if __name__ == "__main__":
    main()
