"""Child interpreter for C13: evaluates seed-update cases under this
process's hash randomisation and prints one JSON line per batch."""
import json
import sys

from vf import common

common.use_repo()
from pydsol.core.streams import (MersenneTwister, SimpleStreamUpdater,      # noqa: E402
                                 StreamSeedUpdater)


class _Missing(dict):
    """A dict subclass whose [] answers None for unknown keys."""

    def __missing__(self, key):
        return None


def make_table(case, items):
    """The seed table in the mapping type the case asks for (all are dicts)."""
    import collections
    tt = case.get("table_type", "dict")
    if tt == "defaultdict":
        t = collections.defaultdict(list)
        t.update(items)
        return t
    if tt == "missing":
        return _Missing(items)
    if tt == "ordered":
        return collections.OrderedDict(items)
    return dict(items)


def evaluate(case, reverse):
    names = case["names"]
    order = list(reversed(names)) if reverse else list(names)
    streams = {n: MersenneTwister(case["seeds"][n]) for n in order}
    alias = case.get("alias")
    if alias:
        # one stream object registered under several ids (in listing order)
        pairs = alias if not reverse else list(reversed(alias))
        for new, target in pairs:
            streams[new] = streams[target]
    table = make_table(case, [(n, case["table"][n]) for n in order if n in case["table"]]
                       + [(n, v) for n, v in case["table"].items() if n not in order])
    upd = SimpleStreamUpdater() if case["updater"] == "simple" else StreamSeedUpdater(table)
    out = {}
    try:
        upd.update_seeds(streams, case["r"])
        for n in names:
            st = streams[n]
            out[n] = [st.seed()] + [st.next_float().hex() for _ in range(5)] \
                + [st.next_int(0, 10 ** 6)]
    except Exception as e:
        out = {"raised": type(e).__name__ + ": " + str(e)[:80]}
    return out


def main():
    cases = json.loads(sys.stdin.read())
    res = []
    for c in cases:
        res.append([evaluate(c, False), evaluate(c, True)])
    sys.stdout.write(json.dumps(res))


if __name__ == "__main__":
    main()
