"""Minimisation helpers: ddmin over lists plus DEVS-case specific passes.
`fails(case)` evaluates a candidate in an isolated process and answers
whether the *same check id* still fails."""
import copy

from vf import program


def ddmin(items, test):
    """Classic delta debugging: smallest sub-list (1-minimal) for which
    test(sublist) holds, assuming test(items) holds."""
    items = list(items)
    n = 2
    while len(items) >= 2:
        chunk = max(1, len(items) // n)
        subsets = [items[i:i + chunk] for i in range(0, len(items), chunk)]
        reduced = False
        for i in range(len(subsets)):
            cand = [x for j, s in enumerate(subsets) if j != i for x in s]
            if test(cand):
                items = cand
                n = max(n - 1, 2)
                reduced = True
                break
        if not reduced:
            if n >= len(items):
                break
            n = min(len(items), n * 2)
    if len(items) == 1 and test([]):
        return []
    return items


def one_by_one(items, test):
    """Greedy removal of single elements, last first."""
    items = list(items)
    i = len(items) - 1
    while i >= 0:
        cand = items[:i] + items[i + 1:]
        if test(cand):
            items = cand
        i -= 1
    return items


def _with(case, **kw):
    c = copy.deepcopy(case)
    c.update(kw)
    return c


def shrink_devs_case(case, fails, keep_first_command=True):
    case = copy.deepcopy(case)
    # 1. simplest schedule first
    sc = case.get("sched") or {"kind": "S0"}
    if sc.get("kind") != "S0":
        c = _with(case, sched={"kind": "S0"})
        if fails(c):
            case = c
        else:
            for key, val in (("oversleep", None), ("clock_jumps", None),
                             ("step_cost_us", 0), ("d", 1), ("d", 2)):
                if sc.get(key) not in (None, val):
                    s2 = dict(case["sched"])
                    if val is None:
                        s2.pop(key, None)
                    else:
                        s2[key] = val
                    c = _with(case, sched=s2)
                    if fails(c):
                        case = c
    # 2. commands
    cmds = case["commands"]
    head, tail = (cmds[:1], cmds[1:]) if keep_first_command else ([], cmds)

    def test_cmds(t):
        return fails(_with(case, commands=head + t))
    tail = ddmin(tail, test_cmds)
    case["commands"] = head + tail
    # 3. extras
    for key in ("pause_at",):
        if case.get(key):
            case[key] = ddmin(case[key], lambda t: fails(_with(case, **{key: t})))
    if case.get("listener_cmds"):
        lc = case["listener_cmds"]
        for k in list(lc):
            c2 = {a: b for a, b in lc.items() if a != k}
            if fails(_with(case, listener_cmds=c2)):
                lc = c2
        case["listener_cmds"] = lc
    # 4. events (whole sub-trees), later events first
    prog = case["program"]
    changed = True
    while changed:
        changed = False
        for eid in sorted(prog["events"], key=int, reverse=True):
            if eid not in prog["events"]:
                continue
            p2 = program.remove_event(prog, eid)
            if fails(_with(case, program=p2)):
                prog = p2
                case["program"] = prog
                changed = True
    # 5. single non-scheduling actions
    def all_lists(p):
        return [("roots", None)] + [("events", e) for e in sorted(p["events"], key=int)]
    if prog.get("initial"):
        p2 = copy.deepcopy(prog)
        moved = p2.pop("initial")
        p2["roots"] = p2["roots"] + moved
        if fails(_with(case, program=p2)):
            prog = p2
            case["program"] = prog
    for where, eid in all_lists(prog):
        al = prog["roots"] if eid is None else prog["events"][eid]
        i = len(al) - 1
        while i >= 0:
            if program.child_of(al[i]) is None:
                p2 = copy.deepcopy(prog)
                l2 = p2["roots"] if eid is None else p2["events"][eid]
                del l2[i]
                if fails(_with(case, program=p2)):
                    prog = p2
                    case["program"] = prog
                    al = prog["roots"] if eid is None else prog["events"][eid]
            i -= 1
    # 6. simplify values
    def try_prog(p2):
        nonlocal prog
        if fails(_with(case, program=p2)):
            prog = p2
            case["program"] = p2
            return True
        return False
    if prog["clock"] != "float":
        p2 = copy.deepcopy(prog)
        p2["clock"] = "float"
        p2.pop("unit", None)
        p2["rep"] = [float(x) for x in p2["rep"]]
        try_prog(p2)
    if prog.get("unit") not in (None, "s"):
        p2 = copy.deepcopy(prog)
        p2["unit"] = "s"
        try_prog(p2)
    for where, eid in all_lists(prog):
        al = prog["roots"] if eid is None else prog["events"][eid]
        for i, a in enumerate(al):
            cands = []
            if a[0] in ("rel", "abs", "pre") and a[3] != 5:
                cands.append(a[:3] + [5])
            if a[0] == "now" and a[2] != 5:
                cands.append(a[:2] + [5])
            if a[0] == "rel" and a[1] not in (0, 1):
                cands.append(["rel", 1] + a[2:])
                cands.append(["rel", 0] + a[2:])
            for cnd in cands:
                p2 = copy.deepcopy(prog)
                l2 = p2["roots"] if eid is None else p2["events"][eid]
                l2[i] = cnd
                if try_prog(p2):
                    al = prog["roots"] if eid is None else prog["events"][eid]
                    a = al[i]
    # 7. decisions of a replay schedule
    sc = case.get("sched") or {}
    if sc.get("kind") == "replay" and sc.get("decisions"):
        def test_dec(d):
            s2 = dict(sc)
            s2["decisions"] = d
            return fails(_with(case, sched=s2))
        sc = dict(sc)
        sc["decisions"] = ddmin(sc["decisions"], test_dec)
        case["sched"] = sc
    return case
