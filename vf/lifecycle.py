"""Lifecycle oracles over a recorded history: notification-stream grammar
(DESIGN Appendix B), quiescent-state invariants, consequences of accepted
commands, after-end behaviour.  Used by C04 (and partly C03/C05/C06)."""

STABLE_RUN = ("NOT_INITIALIZED", "INITIALIZED", "STOPPED", "ENDED")
STABLE_REP = ("NOT_INITIALIZED", "INITIALIZED", "STARTED", "ENDED")


def replications(H):
    """Split H into per-replication slices: from the return of an accepted
    initialize to the invoke of the next accepted initialize / cleanup (the
    collector is subscribed exactly in that window)."""
    out = []
    cur = None
    pending_inv = {}
    for pos, h in enumerate(H):
        if h[0] == "cmd" and h[2] in ("initialize", "initialize_b", "cleanup"):
            if h[3] == "invoke":
                pending_inv[h[1]] = pos
            else:
                ok = h[5] == "ok"
                if ok:
                    if cur is not None:
                        # the old subscription lasts until the command removes the
                        # listeners, which it does right before its own first state
                        # change (a command that overlaps the run waits for the run
                        # thread first: what is notified meanwhile still belongs to
                        # the old replication); fall-back: the invoke
                        inv = pending_inv.get(h[1], pos)
                        label = "%s#%d" % (h[2], h[1])
                        own = next((q for q in range(inv, pos) if H[q][0] == "st"
                                    and (H[q][3] or "").startswith(label)), None)
                        cur["end"] = own if own is not None else inv
                        out.append(cur)
                        cur = None
                    if h[2] in ("initialize", "initialize_b"):
                        cur = {"start": pos, "end": None, "init_index": h[1],
                               "clock0": h[6][2]}
    if cur is not None:
        cur["end"] = len(H)
        out.append(cur)
    return out


def check_stream(H, warmup_time_of, lenient_stopping_after_end=False, silent_failures=False):
    """Grammar of the notification stream of every replication.
    warmup_time_of(rep_slice) -> expected warm-up timestamp."""
    findings = []
    for rp in replications(H):
        seg = H[rp["start"]:rp["end"]]
        items = [h for h in seg if h[0] in ("ntf", "exe", "tc_subscribed")
                 or (h[0] == "cmd" and h[2] == "end_replication")]
        # late mode: the recorder subscribes to TIME_CHANGED from inside a handler;
        # announcements are only due from then on
        tc_on = not any(h[0] == "tc_late_mode" for h in H)
        ntf = [h for h in items if h[0] == "ntf"]
        names = [h[1] for h in ntf]
        # START_REPLICATION once and first
        n_sr = names.count("START_REPLICATION")
        if items and n_sr == 0 and any(n != "END_REPLICATION" for n in names):
            findings.append(("stream-grammar", "notifications %s without "
                             "START_REPLICATION" % names[:6]))
        if n_sr > 1:
            findings.append(("stream-grammar",
                             "START_REPLICATION notified %d times" % n_sr))
        if n_sr == 1 and names[0] != "START_REPLICATION":
            findings.append(("stream-grammar", "START_REPLICATION is not the first "
                             "notification: %s" % names[:6]))
        items_x = [h for h in items if h[0] not in ("cmd", "tc_subscribed")]
        if n_sr and items_x and items_x[0][0] == "exe":
            findings.append(("stream-grammar",
                             "a handler ran before START_REPLICATION"))
        # START / STOP alternate
        running = False
        for h in ntf:
            if h[1] == "START":
                if running:
                    findings.append(("stream-grammar", "two START notifications "
                                     "without a STOP between them"))
                    break
                running = True
            elif h[1] == "STOP":
                if not running:
                    findings.append(("stream-grammar", "STOP notification without "
                                     "a preceding START"))
                    break
                running = False
        # handlers, warm-up and TIME_CHANGED only happen while the simulator is
        # running, i.e. between a START and the following STOP
        running = False
        for h in items:
            if h[0] == "ntf" and h[1] == "START":
                running = True
            elif h[0] == "ntf" and h[1] == "STOP":
                running = False
            elif not running and (_is_exec(h) or (h[0] == "ntf" and h[1] == "TIME_CHANGED")):
                findings.append(("stream-grammar", "%s at %s happened while the simulator "
                                 "was not running (no START notification before it, or "
                                 "after the STOP notification)" % (h[1], h[2])))
                break
        # TIME_CHANGED
        last_tc = None
        seg_clock = None        # clock known inside the current START..STOP
        k = 0
        n_items = len(items)
        prev_exec_time = None
        while k < n_items:
            h = items[k]
            if h[0] == "ntf" and h[1] == "START":
                seg_clock = h[2]
                prev_exec_time = None
            elif h[0] == "ntf" and h[1] == "TIME_CHANGED":
                t = h[2]
                if last_tc is not None and t < last_tc:
                    findings.append(("stream-grammar", "TIME_CHANGED timestamps "
                                     "decrease: %s after %s" % (t, last_tc)))
                    break
                last_tc = t
                # the next executed thing must be at time t
                j = k + 1
                while j < n_items and not _is_exec(items[j]) \
                        and not (items[j][0] == "ntf" and items[j][1] in
                                 ("TIME_CHANGED", "STOP", "END_REPLICATION")):
                    j += 1
                # (silent_failures: some handler calls fail before the handler runs,
                # an announced event then leaves no execution record)
                if not silent_failures and (j >= n_items or not _is_exec(items[j])
                                            or items[j][2] != t):
                    nxt = items[j] if j < n_items else "<end of stream>"
                    findings.append(("stream-grammar", "TIME_CHANGED(%s) is not "
                                     "followed by the execution of an event at that "
                                     "time but by %s" % (t, nxt,)))
                    break
            if h[0] == "cmd" and h[2] == "end_replication" and h[3] == "return" \
                    and h[5] == "ok":
                # the command moves the clock to the end by itself
                prev_exec_time = None
                seg_clock = None
            if h[0] == "tc_subscribed":
                tc_on = True
            if _is_exec(h):
                t = h[2]
                base = prev_exec_time if prev_exec_time is not None else seg_clock
                if tc_on and base is not None and t != base:
                    # a change of the clock must have been announced
                    j = k - 1
                    while j >= 0 and not _is_exec(items[j]) and not (
                            items[j][0] == "ntf" and items[j][1] in
                            ("TIME_CHANGED", "START")):
                        j -= 1
                    if j < 0 or not (items[j][0] == "ntf"
                                     and items[j][1] == "TIME_CHANGED"
                                     and items[j][2] == t):
                        findings.append(("stream-grammar", "the clock changed from "
                                         "%s to %s before event %s without a "
                                         "TIME_CHANGED(%s) notification"
                                         % (base, t, h[1], t)))
                        break
                prev_exec_time = t
            k += 1
        # WARMUP
        w = [h for h in ntf if h[1] == "WARMUP"]
        if len(w) > 1:
            findings.append(("stream-grammar", "WARMUP notified %d times" % len(w)))
        if w:
            wt = warmup_time_of(rp)
            if wt is not None and w[0][2] != wt:
                findings.append(("stream-grammar", "WARMUP timestamp %s, warm-up "
                                 "time %s" % (w[0][2], wt)))
        # END_REPLICATION once and last
        n_end = names.count("END_REPLICATION")
        if n_end > 1:
            findings.append(("stream-grammar",
                             "END_REPLICATION notified %d times" % n_end))
        if n_end >= 1:
            first = next(i for i, h in enumerate(items_x)
                         if h[0] == "ntf" and h[1] == "END_REPLICATION")
            after = items_x[first + 1:]
            if after:
                a = after[0]
                if a[0] == "ntf" and a[1] == "STOPPING" and \
                        all(x[0] == "ntf" and x[1] == "STOPPING" for x in after):
                    findings.append(("stopping-after-end",
                                     "STOPPING notified after END_REPLICATION"))
                else:
                    findings.append(("stream-grammar", "%s after END_REPLICATION"
                                     % (a[:3],)))
    return findings


def _is_exec(h):
    return h[0] == "exe" or (h[0] == "ntf" and h[1] == "WARMUP")


def check_quiescent_states(H):
    findings = []
    for h in H:
        if h[0] == "predicate-mismatch":
            findings.append(("state-predicates", "at quiescence " + h[2]))
            break
        if h[0] in ("quiet", "final"):
            rs, ps = (h[2], h[3]) if h[0] == "quiet" else (h[1], h[2])
            if rs not in STABLE_RUN or ps not in STABLE_REP:
                findings.append(("quiescent-transient-state",
                                 "at quiescence (%s) the simulator reports "
                                 "run_state %s, replication_state %s"
                                 % (h[0], rs, ps)))
                break
            if (rs == "ENDED") != (ps == "ENDED"):
                findings.append(("ended-not-reported",
                                 "at quiescence run_state %s but replication_state "
                                 "%s" % (rs, ps)))
                break
            if (rs == "NOT_INITIALIZED") != (ps == "NOT_INITIALIZED"):
                findings.append(("quiescent-transient-state",
                                 "at quiescence run_state %s but replication_state "
                                 "%s" % (rs, ps)))
                break
    return findings


def check_balanced_at_end(H):
    """At the final quiescence a START must have been matched by a STOP and
    an ENDED replication must have notified END_REPLICATION exactly once."""
    findings = []
    reps = replications(H)
    fin = next((h for h in reversed(H) if h[0] == "final"), None)
    if fin is None or not reps:
        return findings
    rp = reps[-1]
    if rp["end"] != len(H):
        return findings
    seg = [h for h in H[rp["start"]:] if h[0] == "ntf"]
    names = [h[1] for h in seg]
    if names.count("START") != names.count("STOP"):
        findings.append(("stream-grammar", "at final quiescence %d START but %d STOP "
                         "notifications" % (names.count("START"), names.count("STOP"))))
    if fin[1] == "ENDED" and fin[2] == "ENDED" and names.count("END_REPLICATION") != 1:
        findings.append(("stream-grammar", "replication ENDED but END_REPLICATION was "
                         "notified %d times" % names.count("END_REPLICATION")))
    if fin[1] != "ENDED" and names.count("END_REPLICATION"):
        findings.append(("ended-not-reported", "END_REPLICATION notified but run_state "
                         "is %s at final quiescence" % fin[1]))
    return findings
